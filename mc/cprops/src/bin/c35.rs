//! C35 — quoted symbols and strings survive the expression languages.
//!
//! Exhaustive over every string of at most L characters over an alphabet of quote, escape,
//! control, whitespace, operator and multi-byte characters. For each string `s`:
//!
//!  (a) symbol: `format_symbol(s)` (and the `Display` of `RefName::as_symbol()`, which is what
//!      jj prints) parses back — `revset::parse_program` gives the identifier/string node `s`,
//!      `revset::parse` gives the symbol `s`, `revset::parse_symbol` gives `s`;
//!  (b) remote symbol: `format_remote_symbol(n, r)` (and the `Display` of `RemoteRefSymbol`)
//!      parses back to the remote symbol `n@r`, for every pair of shorter strings;
//!  (c) string: `"` + `escape_string(s)` + `"` (= `format_string(s)`) parses back to the string
//!      `s` in the revset grammar (bare and as `exact:"…"` pattern value, also through
//!      `parse_string_expression`), the fileset grammar (`root-file:"…"` / `file:"…"` through the
//!      public `fileset::parse`) and the template grammar (`parse_template`, `parse`, and as
//!      `exact:"…"` pattern value).
//!
//! The reference is the identity function: the oracle only compares the parsed value with the
//! string that was formatted. For the fileset grammar the parsed string is only observable as
//! a repo path; for strings with a single path component the reference is again `s` itself,
//! for the others the reference is the public path constructor applied to `s` directly
//! (path normalisation is the subject of C32, not of this property).

use std::collections::HashMap;
use std::path::PathBuf;

use jj_cli::template_parser;
use jj_cli::template_parser::TemplateAliasesMap;
use jj_lib::dsl_util::escape_string;
use jj_lib::fileset;
use jj_lib::fileset::FilePattern;
use jj_lib::fileset::FilesetAliasesMap;
use jj_lib::fileset::FilesetDiagnostics;
use jj_lib::fileset::FilesetExpression;
use jj_lib::fileset::FilesetParseContext;
use jj_lib::ref_name::RefName;
use jj_lib::ref_name::RemoteName;
use jj_lib::ref_name::RemoteRefSymbol;
use jj_lib::repo_path::RepoPathUiConverter;
use jj_lib::revset;
use jj_lib::revset::ExpressionKind;
use jj_lib::revset::RevsetAliasesMap;
use jj_lib::revset::RevsetCommitRef;
use jj_lib::revset::RevsetDiagnostics;
use jj_lib::revset::RevsetExpression;
use jj_lib::revset::RevsetExtensions;
use jj_lib::revset::RevsetParseContext;
use jj_lib::str_util::StringExpression;
use jj_lib::str_util::StringPattern;
use rayon::prelude::*;
use serde_json::Value;
use serde_json::json;
use vcommon::Counter;
use vcommon::Coverage;
use vcommon::Ctx;
use vcommon::Level;
use vcommon::Samples;
use vcommon::catch;

const ALPHABET: &[char] = &[
    'a', '"', '\\', '\'', ' ', '\t', '\n', '\r', '\0', '\x1b', '\x7f', '@', '|', '&', '~', '(', ')', ':', '-', '+',
    '.', '/', 'é', '\u{85}', '😀', 'x', '4', '*',
];

type Fail = (String, String);

struct Env {
    revset_aliases: RevsetAliasesMap,
    fileset_aliases: FilesetAliasesMap,
    template_aliases: TemplateAliasesMap,
    extensions: RevsetExtensions,
    converter: RepoPathUiConverter,
    now: chrono::DateTime<chrono::FixedOffset>,
}

impl Env {
    fn new() -> Self {
        Env {
            revset_aliases: RevsetAliasesMap::new(),
            fileset_aliases: FilesetAliasesMap::new(),
            template_aliases: TemplateAliasesMap::new(),
            extensions: RevsetExtensions::default(),
            converter: RepoPathUiConverter::Fs { cwd: PathBuf::from("/ws"), base: PathBuf::from("/ws") },
            now: chrono::DateTime::parse_from_rfc3339("2026-01-02T03:04:05+00:00").unwrap(),
        }
    }

    fn revset_context(&self) -> RevsetParseContext<'_> {
        RevsetParseContext {
            aliases_map: &self.revset_aliases,
            local_variables: HashMap::new(),
            user_email: "test.user@example.com",
            date_pattern_context: self.now.into(),
            default_ignored_remote: Some(RemoteName::new("git")),
            fileset_aliases_map: &self.fileset_aliases,
            extensions: &self.extensions,
            workspace: None,
        }
    }
}

fn shape_of(expected: &str, got: &str) -> &'static str {
    if got.len() < expected.len() {
        "string-shorter"
    } else if got.len() > expected.len() {
        "string-longer"
    } else {
        "string-differs"
    }
}

/// What the revset AST says a text denotes, as far as this property is concerned.
#[derive(Debug, PartialEq, Eq)]
enum Leaf {
    Identifier(String),
    String(String),
    Remote(String, String),
    Pattern(String, Box<Leaf>),
    Other(String),
}

fn revset_leaf(kind: &ExpressionKind) -> Leaf {
    match kind {
        ExpressionKind::Identifier(s) => Leaf::Identifier((*s).to_owned()),
        ExpressionKind::String(s) => Leaf::String(s.clone()),
        ExpressionKind::RemoteSymbol(sym) => {
            Leaf::Remote(sym.name.as_str().to_owned(), sym.remote.as_str().to_owned())
        }
        ExpressionKind::Pattern(p) => Leaf::Pattern(p.name.to_owned(), Box::new(revset_leaf(&p.value.kind))),
        other => Leaf::Other(format!("{other:?}").chars().take(80).collect()),
    }
}

fn template_leaf(kind: &template_parser::ExpressionKind) -> Leaf {
    use template_parser::ExpressionKind as K;
    match kind {
        K::Identifier(s) => Leaf::Identifier((*s).to_owned()),
        K::String(s) => Leaf::String(s.clone()),
        K::Pattern(p) => Leaf::Pattern(p.name.to_owned(), Box::new(template_leaf(&p.value.kind))),
        other => Leaf::Other(format!("{other:?}").chars().take(80).collect()),
    }
}

#[derive(Default)]
struct SymbolInfo {
    quoted: bool,
}

/// Clause (a).
fn check_symbol(env: &Env, s: &str) -> Result<SymbolInfo, Fail> {
    let text = catch(|| revset::format_symbol(s)).map_err(|e| ("C35/revset/format_symbol/panic".to_string(), e))?;
    let shown = RefName::new(s).as_symbol().to_string();
    if shown != text {
        return Err((
            "C35/revset/symbol/display-differs-from-format_symbol".into(),
            format!("RefName({s:?}).as_symbol() displays {shown:?}, format_symbol gives {text:?}"),
        ));
    }
    let quoted = text != s;
    // AST level
    let ast = catch(|| revset::parse_program(&text).map(|n| revset_leaf(&n.kind)).map_err(|e| e.to_string()))
        .map_err(|e| ("C35/revset/symbol/parse-panic".to_string(), format!("{s:?} -> {text:?}: {e}")))?;
    match ast {
        Err(e) => {
            return Err((
                format!("C35/revset/symbol/{}/parse-error", if quoted { "quoted" } else { "bare" }),
                format!("symbol {s:?} is formatted as {text:?}, which does not parse: {e}"),
            ));
        }
        Ok(Leaf::Identifier(got)) | Ok(Leaf::String(got)) => {
            if got != s {
                return Err((
                    format!("C35/revset/symbol/{}/{}", if quoted { "quoted" } else { "bare" }, shape_of(s, &got)),
                    format!("symbol {s:?} is formatted as {text:?}, which parses as the symbol {got:?}"),
                ));
            }
        }
        Ok(other) => {
            return Err((
                format!("C35/revset/symbol/{}/not-a-symbol", if quoted { "quoted" } else { "bare" }),
                format!("symbol {s:?} is formatted as {text:?}, which parses as {other:?}"),
            ));
        }
    }
    // lowered expression (no aliases)
    let lowered = catch(|| {
        revset::parse(&mut RevsetDiagnostics::new(), &text, &env.revset_context())
            .map(|e| match &*e {
                RevsetExpression::CommitRef(RevsetCommitRef::Symbol(got)) => Ok(got.clone()),
                other => Err(format!("{other:?}").chars().take(120).collect::<String>()),
            })
            .map_err(|e| e.to_string())
    })
    .map_err(|e| ("C35/revset/symbol/lower-panic".to_string(), format!("{s:?} -> {text:?}: {e}")))?;
    match lowered {
        Ok(Ok(got)) if got == s => {}
        other => {
            return Err((
                "C35/revset/symbol/lowered-differs".into(),
                format!("symbol {s:?} formatted as {text:?}: revset::parse gives {other:?}"),
            ));
        }
    }
    // parse_symbol (rejects the empty string by contract)
    if !s.is_empty() {
        let got = catch(|| revset::parse_symbol(&text).map_err(|e| e.to_string()))
            .map_err(|e| ("C35/revset/symbol/parse_symbol-panic".to_string(), format!("{s:?}: {e}")))?;
        if got.as_deref() != Ok(s) {
            return Err((
                "C35/revset/symbol/parse_symbol-differs".into(),
                format!("symbol {s:?} formatted as {text:?}: parse_symbol gives {got:?}"),
            ));
        }
    }
    Ok(SymbolInfo { quoted })
}

/// Clause (b).
fn check_remote_symbol(env: &Env, name: &str, remote: &str) -> Result<(), Fail> {
    let text = catch(|| revset::format_remote_symbol(name, remote))
        .map_err(|e| ("C35/revset/format_remote_symbol/panic".to_string(), e))?;
    let shown = RemoteRefSymbol { name: RefName::new(name), remote: RemoteName::new(remote) }.to_string();
    if shown != text {
        return Err((
            "C35/revset/remote-symbol/display-differs-from-format_remote_symbol".into(),
            format!("RemoteRefSymbol({name:?}, {remote:?}) displays {shown:?}, format_remote_symbol gives {text:?}"),
        ));
    }
    let ast = catch(|| revset::parse_program(&text).map(|n| revset_leaf(&n.kind)).map_err(|e| e.to_string()))
        .map_err(|e| ("C35/revset/remote-symbol/parse-panic".to_string(), format!("{text:?}: {e}")))?;
    match ast {
        Err(e) => {
            return Err((
                "C35/revset/remote-symbol/parse-error".into(),
                format!("{name:?}@{remote:?} is formatted as {text:?}, which does not parse: {e}"),
            ));
        }
        Ok(Leaf::Remote(n, r)) => {
            if n != name || r != remote {
                let part = match (n != name, r != remote) {
                    (true, true) => "name+remote",
                    (true, false) => "name",
                    _ => "remote",
                };
                return Err((
                    format!("C35/revset/remote-symbol/{part}-differs"),
                    format!("{name:?}@{remote:?} is formatted as {text:?}, which parses as {n:?}@{r:?}"),
                ));
            }
        }
        Ok(other) => {
            return Err((
                "C35/revset/remote-symbol/not-a-remote-symbol".into(),
                format!("{name:?}@{remote:?} is formatted as {text:?}, which parses as {other:?}"),
            ));
        }
    }
    let lowered = catch(|| {
        revset::parse(&mut RevsetDiagnostics::new(), &text, &env.revset_context())
            .map(|e| match &*e {
                RevsetExpression::CommitRef(RevsetCommitRef::RemoteSymbol(sym)) => {
                    Ok((sym.name.as_str().to_owned(), sym.remote.as_str().to_owned()))
                }
                other => Err(format!("{other:?}").chars().take(120).collect::<String>()),
            })
            .map_err(|e| e.to_string())
    })
    .map_err(|e| ("C35/revset/remote-symbol/lower-panic".to_string(), format!("{text:?}: {e}")))?;
    match lowered {
        Ok(Ok((n, r))) if n == name && r == remote => Ok(()),
        other => Err((
            "C35/revset/remote-symbol/lowered-differs".into(),
            format!("{name:?}@{remote:?} formatted as {text:?}: revset::parse gives {other:?}"),
        )),
    }
}

fn expect_string(lang: &str, site: &str, s: &str, text: &str, got: Result<Leaf, String>) -> Result<(), Fail> {
    match got {
        Err(e) => Err((
            format!("C35/{lang}/string/{site}/parse-error"),
            format!("string {s:?} is escaped as {text:?}, which does not parse as a {lang}: {e}"),
        )),
        Ok(Leaf::String(g)) if g == s => Ok(()),
        Ok(Leaf::String(g)) => Err((
            format!("C35/{lang}/string/{site}/{}", shape_of(s, &g)),
            format!("string {s:?} is escaped as {text:?}, which the {lang} grammar reads as {g:?}"),
        )),
        Ok(other) => Err((
            format!("C35/{lang}/string/{site}/not-a-string"),
            format!("string {s:?} is escaped as {text:?}, which the {lang} grammar reads as {other:?}"),
        )),
    }
}

fn unwrap_pattern(kind_name: &str, leaf: Result<Leaf, String>) -> Result<Leaf, String> {
    match leaf? {
        Leaf::Pattern(name, value) if name == kind_name => Ok(*value),
        other => Ok(Leaf::Other(format!("{other:?}"))),
    }
}

#[derive(Default)]
struct StringInfo {
    escaped: bool,
    raw_control_in_escaped: bool,
    fileset_single_component: bool,
    fileset_path_error: bool,
}

/// Clause (c).
fn check_string(env: &Env, s: &str) -> Result<StringInfo, Fail> {
    let escaped = catch(|| escape_string(s)).map_err(|e| ("C35/escape_string/panic".to_string(), e))?;
    let text = format!("\"{escaped}\"");
    let via_format_string = revset::format_string(s);
    if via_format_string != text {
        return Err((
            "C35/revset/format_string/differs-from-escape_string".into(),
            format!("format_string({s:?}) = {via_format_string:?}, quoted escape_string = {text:?}"),
        ));
    }
    let mut info = StringInfo {
        escaped: escaped != s,
        raw_control_in_escaped: escaped.chars().any(|c| c.is_ascii_control()),
        ..Default::default()
    };

    // ---- revset ----
    let got = catch(|| revset::parse_program(&text).map(|n| revset_leaf(&n.kind)).map_err(|e| e.to_string()))
        .map_err(|e| ("C35/revset/string/bare/panic".to_string(), format!("{text:?}: {e}")))?;
    expect_string("revset", "bare", s, &text, got)?;
    let pat_text = format!("exact:{text}");
    let got = catch(|| revset::parse_program(&pat_text).map(|n| revset_leaf(&n.kind)).map_err(|e| e.to_string()))
        .map_err(|e| ("C35/revset/string/pattern/panic".to_string(), format!("{pat_text:?}: {e}")))?;
    expect_string("revset", "pattern", s, &pat_text, unwrap_pattern("exact", got))?;
    let got = catch(|| {
        revset::parse_string_expression(&mut RevsetDiagnostics::new(), &pat_text)
            .map(|e| match e {
                StringExpression::Pattern(p) => match *p {
                    StringPattern::Exact(g) => Leaf::String(g),
                    other => Leaf::Other(format!("{other:?}")),
                },
                other => Leaf::Other(format!("{other:?}")),
            })
            .map_err(|e| e.to_string())
    })
    .map_err(|e| ("C35/revset/string/string-expression/panic".to_string(), format!("{pat_text:?}: {e}")))?;
    expect_string("revset", "string-expression", s, &pat_text, got)?;

    // ---- template ----
    let got = catch(|| {
        template_parser::parse_template(&text).map(|n| template_leaf(&n.kind)).map_err(|e| e.to_string())
    })
    .map_err(|e| ("C35/template/string/bare/panic".to_string(), format!("{text:?}: {e}")))?;
    expect_string("template", "bare", s, &text, got)?;
    let got = catch(|| {
        template_parser::parse(&text, &env.template_aliases).map(|n| template_leaf(&n.kind)).map_err(|e| e.to_string())
    })
    .map_err(|e| ("C35/template/string/parse/panic".to_string(), format!("{text:?}: {e}")))?;
    expect_string("template", "parse", s, &text, got)?;
    let got = catch(|| {
        template_parser::parse_template(&pat_text).map(|n| template_leaf(&n.kind)).map_err(|e| e.to_string())
    })
    .map_err(|e| ("C35/template/string/pattern/panic".to_string(), format!("{pat_text:?}: {e}")))?;
    expect_string("template", "pattern", s, &pat_text, unwrap_pattern("exact", got))?;
    // also in the middle of a larger template
    let concat_text = format!("{text} ++ {text}");
    let got = catch(|| {
        template_parser::parse_template(&concat_text)
            .map(|n| match &n.kind {
                template_parser::ExpressionKind::Concat(nodes) if nodes.len() == 2 => {
                    match (template_leaf(&nodes[0].kind), template_leaf(&nodes[1].kind)) {
                        (Leaf::String(a), Leaf::String(b)) if a == b => Leaf::String(a),
                        other => Leaf::Other(format!("{other:?}")),
                    }
                }
                other => Leaf::Other(format!("{other:?}").chars().take(80).collect()),
            })
            .map_err(|e| e.to_string())
    })
    .map_err(|e| ("C35/template/string/concat/panic".to_string(), format!("{concat_text:?}: {e}")))?;
    expect_string("template", "concat", s, &concat_text, got)?;

    // ---- fileset ----
    let fctx = FilesetParseContext { aliases_map: &env.fileset_aliases, path_converter: &env.converter };
    let single_component = !s.is_empty() && s != "." && s != ".." && !s.contains('/');
    info.fileset_single_component = single_component;
    for (kind, site) in [("root-file", "root-file"), ("file", "cwd-file")] {
        let ftext = format!("{kind}:{text}");
        let got = catch(|| {
            fileset::parse(&mut FilesetDiagnostics::new(), &ftext, &fctx)
                .map(|e| match e {
                    FilesetExpression::Pattern(FilePattern::FilePath(p)) => {
                        Ok(p.as_internal_file_string().to_owned())
                    }
                    other => Err(format!("{other:?}").chars().take(120).collect::<String>()),
                })
                .map_err(|e| {
                    let syntax = matches!(e.kind(), fileset::FilesetParseErrorKind::SyntaxError);
                    (syntax, e.to_string())
                })
        })
        .map_err(|e| (format!("C35/fileset/string/{site}/panic"), format!("{ftext:?}: {e}")))?;
        // What the pattern constructor makes of `s` itself (path layer; C32's subject).
        let direct = catch(|| {
            let r = if kind == "root-file" {
                FilePattern::root_file_path(s)
            } else {
                FilePattern::cwd_file_path(&env.converter, s)
            };
            r.map(|p| match p {
                FilePattern::FilePath(p) => p.as_internal_file_string().to_owned(),
                other => format!("unexpected {other:?}"),
            })
            .map_err(|e| e.to_string())
        })
        .map_err(|e| (format!("C35/fileset/string/{site}/path-layer-panic"), format!("{s:?}: {e}")))?;
        if single_component && direct.as_deref() != Ok(s) {
            vcommon::machinery_failure(&format!(
                "reference inconsistency: path constructor maps single component {s:?} to {direct:?}"
            ));
        }
        match (&got, &direct) {
            (Err((true, e)), _) => {
                return Err((
                    format!("C35/fileset/string/{site}/parse-error"),
                    format!("string {s:?} is escaped as {ftext:?}, which is a fileset syntax error: {e}"),
                ));
            }
            (Ok(Err(other)), _) => {
                return Err((
                    format!("C35/fileset/string/{site}/not-a-file-pattern"),
                    format!("string {s:?} is escaped as {ftext:?}, which the fileset grammar reads as {other}"),
                ));
            }
            (Ok(Ok(p)), Ok(d)) if p == d => {}
            (Err((false, _)), Err(_)) => info.fileset_path_error = true,
            (g, d) => {
                return Err((
                    format!("C35/fileset/string/{site}/path-differs"),
                    format!(
                        "string {s:?} is escaped as {ftext:?}: the fileset yields {g:?}, the path of {s:?} itself is {d:?}"
                    ),
                ));
            }
        }
    }
    Ok(info)
}

fn string_of(indices: &[usize]) -> String {
    indices.iter().map(|&i| ALPHABET[i]).collect()
}

/// Every string of exactly `len` characters that starts with `prefix`.
fn for_each_with_prefix(prefix: &[usize], len: usize, mut f: impl FnMut(&str)) {
    let rest = len - prefix.len();
    let dims = vec![ALPHABET.len(); rest];
    let mut buf: Vec<usize> = prefix.to_vec();
    buf.resize(len, 0);
    if rest == 0 {
        f(&string_of(&buf));
        return;
    }
    vcommon::enumerate::odometer(&dims, |t| {
        buf[prefix.len()..].copy_from_slice(t);
        f(&string_of(&buf));
        true
    });
}

/// Shards of the set of all strings of length <= max_len: (prefix, len).
fn shards(max_len: usize) -> Vec<(Vec<usize>, usize)> {
    let a = ALPHABET.len();
    let mut out = vec![(vec![], 0)];
    for len in 1..=max_len {
        if len == 1 {
            for i in 0..a {
                out.push((vec![i], 1));
            }
        } else {
            for i in 0..a {
                for j in 0..a {
                    out.push((vec![i, j], len));
                }
            }
        }
    }
    out
}

fn all_strings(max_len: usize) -> Vec<String> {
    let mut v = vec![];
    for (prefix, len) in shards(max_len) {
        for_each_with_prefix(&prefix, len, |s| v.push(s.to_owned()));
    }
    v
}

fn replay(ctx: &Ctx, env: &Env, case: &Value) {
    let r = match case["clause"].as_str().unwrap_or("") {
        "symbol" => check_symbol(env, case["s"].as_str().unwrap_or("")).map(|_| ()),
        "string" => check_string(env, case["s"].as_str().unwrap_or("")).map(|_| ()),
        "remote-symbol" => {
            check_remote_symbol(env, case["name"].as_str().unwrap_or(""), case["remote"].as_str().unwrap_or(""))
        }
        other => vcommon::machinery_failure(&format!("unknown clause {other:?} in replay case")),
    };
    if let Err((sig, msg)) = r {
        ctx.violation(&sig, msg, case.clone());
    }
}

fn main() {
    let ctx = Ctx::from_args("C35", Level::Exploration);
    vcommon::silence_panics();
    if let Some((_sig, case)) = ctx.replay_case() {
        replay(&ctx, &Env::new(), &case);
        ctx.finish(Coverage { evaluations: 1, ..Default::default() });
    }
    let max_len = ctx.pick(4, 5);
    // pairs: rectangles (|name| <= n, |remote| <= r); a pair covered by an earlier rectangle is skipped
    let rectangles: Vec<(usize, usize)> = ctx.pick(vec![(2, 2)], vec![(3, 2), (2, 3), (4, 1), (1, 4)]);

    let evals = Counter::new();
    let strings = Counter::new();
    let quoted_symbols = Counter::new();
    let bare_symbols = Counter::new();
    let escaped_strings = Counter::new();
    let raw_control = Counter::new();
    let fileset_single = Counter::new();
    let fileset_path_errors = Counter::new();
    let pairs = Counter::new();
    let pairs_quoted = Counter::new();
    let samples = Samples::new(8);
    let string_samples = Samples::new(4);

    // ---- (a) + (c) over every string ----
    shards(max_len).par_iter().for_each(|(prefix, len)| {
        let env = Env::new();
        for_each_with_prefix(prefix, *len, |s| {
            strings.inc();
            evals.inc();
            match check_symbol(&env, s) {
                Ok(info) => {
                    if info.quoted {
                        quoted_symbols.inc();
                    } else {
                        bare_symbols.inc();
                    }
                }
                Err((sig, msg)) => ctx.violation(&sig, msg, json!({"clause": "symbol", "s": s})),
            }
            evals.inc();
            match check_string(&env, s) {
                Ok(info) => {
                    if info.escaped {
                        escaped_strings.inc();
                        if *len == 3 && s.contains('\x1b') && s.contains('"') {
                            string_samples.offer(|| json!({"clause": "string", "s": s, "escaped": escape_string(s)}));
                        }
                    }
                    if info.raw_control_in_escaped {
                        raw_control.inc();
                    }
                    if info.fileset_single_component {
                        fileset_single.inc();
                    }
                    if info.fileset_path_error {
                        fileset_path_errors.inc();
                    }
                }
                Err((sig, msg)) => ctx.violation(&sig, msg, json!({"clause": "string", "s": s})),
            }
        });
    });

    // ---- (b) over pairs ----
    let by_len: Vec<Vec<String>> = (0..=max_len).map(all_strings).collect();
    for (idx, &(nmax, rmax)) in rectangles.iter().enumerate() {
        let earlier = &rectangles[..idx];
        by_len[nmax].par_iter().for_each(|name| {
            let env = Env::new();
            let nlen = name.chars().count();
            for remote in &by_len[rmax] {
                let rlen = remote.chars().count();
                if earlier.iter().any(|&(n, r)| nlen <= n && rlen <= r) {
                    continue;
                }
                pairs.inc();
                evals.inc();
                if revset::format_symbol(name) != *name || revset::format_symbol(remote) != *remote {
                    pairs_quoted.inc();
                }
                if let Err((sig, msg)) = check_remote_symbol(&env, name, remote) {
                    ctx.violation(&sig, msg, json!({"clause": "remote-symbol", "name": name, "remote": remote}));
                }
            }
        });
    }
    samples.offer(|| {
        json!({"clause": "remote-symbol", "name": "a b", "remote": "x@\"", "formatted": revset::format_remote_symbol("a b", "x@\"")})
    });
    samples.offer(|| json!({"clause": "symbol", "s": "a-", "formatted": revset::format_symbol("a-")}));
    samples.offer(|| json!({"clause": "symbol", "s": "a-x", "formatted": revset::format_symbol("a-x")}));

    if quoted_symbols.get() == 0
        || bare_symbols.get() == 0
        || escaped_strings.get() == 0
        || fileset_single.get() == 0
        || pairs_quoted.get() == 0
    {
        vcommon::machinery_failure("C35: a clause was never exercised (vacuous enumeration)");
    }

    let cov = Coverage {
        evaluations: evals.get(),
        distinct_nontrivial: quoted_symbols.get() + escaped_strings.get() + pairs_quoted.get(),
        rule: format!(
            "every string of <= {max_len} characters over the {}-character alphabet {ALPHABET:?} (each once), as symbol \
             (clause a) and as string literal in the three grammars (clause c); every pair (name, remote) in the \
             union of the length rectangles (|name| <=, |remote| <=) {rectangles:?}, each pair once (clause b). \
             Non-trivial = symbols that need quoting + strings whose escaped form differs from the string + pairs \
             where at least one side needs quoting",
            ALPHABET.len()
        ),
        samples: samples.take().into_iter().chain(string_samples.take()).collect(),
        exhaustive: true,
        extra: [
            ("alphabet_size".to_string(), json!(ALPHABET.len())),
            ("max_len".to_string(), json!(max_len)),
            ("pair_rectangles".to_string(), json!(rectangles)),
            ("strings".to_string(), json!(strings.get())),
            ("symbols_quoted".to_string(), json!(quoted_symbols.get())),
            ("symbols_bare_identifier".to_string(), json!(bare_symbols.get())),
            ("strings_with_escapes".to_string(), json!(escaped_strings.get())),
            (
                "escaped_forms_containing_raw_ascii_control_informational".to_string(),
                json!(raw_control.get()),
            ),
            ("fileset_single_component_strings_compared_with_s_itself".to_string(), json!(fileset_single.get())),
            ("fileset_strings_rejected_by_path_layer_on_both_sides".to_string(), json!(fileset_path_errors.get())),
            ("remote_symbol_pairs".to_string(), json!(pairs.get())),
            ("remote_symbol_pairs_with_quoting".to_string(), json!(pairs_quoted.get())),
            ("parse_sites_per_string".to_string(), json!(["revset symbol: parse_program, parse, parse_symbol", "revset string: bare, exact: pattern, parse_string_expression", "template: parse_template, parse, exact: pattern, concat", "fileset: root-file:, file:"])),
        ]
        .into_iter()
        .collect(),
        assumptions: vec![
            "the string jj escapes is observed in the fileset grammar only through the repo path built from it; for multi-component strings the reference is the public path constructor applied to the original string (path layer = C32)".into(),
            "clause (d) of the design (escaped form free of raw control bytes) is not implied by the statement and is only counted".into(),
            "unquoted identifiers can be substituted by user aliases (documented by format_symbol); the check uses empty alias maps".into(),
            format!("strings longer than {max_len} characters or with characters outside the alphabet are not explored"),
        ],
        ..Default::default()
    };
    ctx.finish(cov);
}

//! C40 — Working-copy changes are never lost by commands.
//!
//! Explicit-state search over sequences of real `jj` commands (the binary built from /repo,
//! `$JJV_BIN`) interleaved with file edits, in one repository with one or two workspaces.
//! A state is a directory tree on tmpfs (both workspaces + the repo); a transition is "copy
//! the parent's directory, apply the edits of the action, run one `jj` command". Every file
//! content the harness writes is a unique witness (`W:<path>@<ws>#<n>:xxxx`, the length grows
//! with n so no two witnesses of one history have the same size).
//!
//! Oracle (evaluated after every command, on every transition): the ghost set G holds every
//! (workspace, path, witness content) that was on disk at the start of some command of the
//! history. Every element of G must be
//!   * contained in the tree of the working-copy commit of some workspace in the view of some
//!     operation reachable from the current operation heads (walked read-only through jj-lib:
//!     no snapshot, no head merge; for a conflicted path every term counts), or
//!   * still on disk, same workspace, same path, same bytes.
//! Otherwise the command destroyed a file state that no operation recorded.
//!
//! Deviations from DESIGN.md §4 C40 (see the final report of the author): the clause "a
//! command that refuses to run leaves the repo unchanged" is not in the statement and is only
//! counted; edits are folded into the command actions as "dirty patterns" (P0 none, P1 fresh
//! `f` in every workspace, P2 delete `f` here + fresh `g` elsewhere, P3 new untracked file here
//! + fresh `f` elsewhere) because a CLI transition costs 0.2–2 s on this machine, so the
//! budget is counted in commands; the search is wall-clock capped and says so when it was cut.

use std::collections::BTreeMap;
use std::collections::BTreeSet;
use std::collections::HashMap;
use std::path::Path;
use std::path::PathBuf;
use std::process::Command;
use std::process::Stdio;
use std::sync::Arc;
use std::sync::Mutex;
use std::sync::atomic::AtomicBool;
use std::sync::atomic::AtomicU64;
use std::sync::atomic::Ordering;
use std::time::Duration;
use std::time::Instant;

use jj_lib::backend::CommitId;
use jj_lib::backend::TreeId;
use jj_lib::backend::TreeValue;
use jj_lib::config::ConfigLayer;
use jj_lib::config::ConfigSource;
use jj_lib::config::StackedConfig;
use jj_lib::merge::Merge;
use jj_lib::object_id::ObjectId as _;
use jj_lib::op_store::OperationId;
use jj_lib::op_store::RefTarget;
use jj_lib::op_store::View;
use jj_lib::repo::RepoLoader;
use jj_lib::settings::UserSettings;
use jj_lib::workspace::Workspace;
use pollster::FutureExt as _;
use serde::Deserialize;
use serde::Serialize;
use serde_json::Value;
use serde_json::json;
use vcommon::Coverage;
use vcommon::Ctx;
use vcommon::Level;
use vcommon::bfs;

// ---------------------------------------------------------------------------------------------
// hermetic environment for child `jj` processes
// ---------------------------------------------------------------------------------------------

struct Env {
    root: PathBuf,
    jjv: PathBuf,
}

fn ts(step: u32) -> String {
    format!("2001-02-03T04:{:02}:{:02}+07:00", step / 60, step % 60)
}

const CONFIGS: [&str; 2] = [
    "[ui]\ncolor = \"never\"\npaginate = \"never\"\neditor = \"true\"\n[snapshot]\nauto-update-stale = false\n",
    "[ui]\ncolor = \"never\"\npaginate = \"never\"\neditor = \"true\"\n[snapshot]\nauto-update-stale = true\n",
];

static OUT_COUNTER: AtomicU64 = AtomicU64::new(0);

struct RunOut {
    code: Option<i32>,
    stderr: String,
}

impl Env {
    fn new(root: &Path, jjv: PathBuf) -> Env {
        std::fs::create_dir_all(root.join("home")).unwrap();
        std::fs::create_dir_all(root.join("tmp")).unwrap();
        std::fs::create_dir_all(root.join("out")).unwrap();
        std::fs::create_dir_all(root.join("st")).unwrap();
        for (i, c) in CONFIGS.iter().enumerate() {
            std::fs::write(root.join(format!("config{i}.toml")), c).unwrap();
        }
        Env { root: root.to_path_buf(), jjv }
    }

    /// Runs one `jj` command to completion (stdout/stderr to files, 300 s watchdog).
    fn run(&self, cwd: &Path, step: u32, config: usize, args: &[String]) -> RunOut {
        let n = OUT_COUNTER.fetch_add(1, Ordering::Relaxed);
        let out_path = self.root.join(format!("out/o{n}"));
        let err_path = self.root.join(format!("out/e{n}"));
        let mut c = Command::new(&self.jjv);
        c.current_dir(cwd);
        c.env_clear();
        c.env("PATH", "/usr/bin:/bin");
        c.env("HOME", self.root.join("home"));
        c.env("JJ_CONFIG", self.root.join(format!("config{config}.toml")));
        c.env("JJ_USER", "Test User");
        c.env("JJ_EMAIL", "test.user@example.com");
        c.env("JJ_OP_HOSTNAME", "host.example.com");
        c.env("JJ_OP_USERNAME", "test-username");
        c.env("JJ_TZ_OFFSET_MINS", "420");
        c.env("JJ_TIMESTAMP", ts(step));
        c.env("JJ_OP_TIMESTAMP", ts(step));
        c.env("JJ_RANDOMNESS_SEED", step.to_string());
        c.env("RAYON_NUM_THREADS", "1");
        c.env("GIT_CONFIG_GLOBAL", "/dev/null");
        c.env("GIT_CONFIG_SYSTEM", "/dev/null");
        c.env("TMPDIR", self.root.join("tmp"));
        c.env("TZ", "UTC");
        c.args(args);
        c.stdin(Stdio::null());
        c.stdout(std::fs::File::create(&out_path).unwrap());
        c.stderr(std::fs::File::create(&err_path).unwrap());
        let mut child = c
            .spawn()
            .unwrap_or_else(|e| vcommon::machinery_failure(&format!("cannot run jj: {e}")));
        let start = Instant::now();
        let status = loop {
            match child.try_wait() {
                Ok(Some(s)) => break s,
                Ok(None) => {
                    if start.elapsed() > Duration::from_secs(300) {
                        let _ = child.kill();
                        vcommon::machinery_failure(&format!("jj {args:?} did not finish within 300 s"));
                    }
                    std::thread::sleep(Duration::from_millis(4));
                }
                Err(e) => vcommon::machinery_failure(&format!("wait for jj failed: {e}")),
            }
        };
        let stderr = String::from_utf8_lossy(&std::fs::read(&err_path).unwrap_or_default()).to_string();
        let _ = std::fs::remove_file(&out_path);
        let _ = std::fs::remove_file(&err_path);
        RunOut { code: status.code(), stderr }
    }
}

fn copy_tree(src: &Path, dst: &Path) {
    std::fs::create_dir_all(dst).unwrap();
    for e in std::fs::read_dir(src).unwrap() {
        let e = e.unwrap();
        let ft = e.file_type().unwrap();
        let d = dst.join(e.file_name());
        if ft.is_dir() {
            copy_tree(&e.path(), &d);
        } else if ft.is_symlink() {
            let t = std::fs::read_link(e.path()).unwrap();
            std::os::unix::fs::symlink(t, &d).unwrap();
        } else {
            std::fs::copy(e.path(), &d).unwrap();
            // keep the mtime: the working copy compares it with its recorded state
            let m = e.metadata().unwrap().modified().unwrap();
            if let Ok(f) = std::fs::File::options().write(true).open(&d) {
                let _ = f.set_modified(m);
            }
        }
    }
}

/// (relative path, content) of every regular file of a working copy, `.jj` excluded.
fn disk_files(ws: &Path) -> BTreeMap<String, Vec<u8>> {
    fn rec(base: &Path, dir: &Path, out: &mut BTreeMap<String, Vec<u8>>) {
        let Ok(rd) = std::fs::read_dir(dir) else { return };
        for e in rd.flatten() {
            let p = e.path();
            let name = e.file_name().to_string_lossy().to_string();
            if dir == base && name == ".jj" {
                continue;
            }
            let ft = e.file_type().unwrap();
            if ft.is_dir() {
                rec(base, &p, out);
            } else if ft.is_file()
                && let Ok(bytes) = std::fs::read(&p)
            {
                out.insert(p.strip_prefix(base).unwrap().to_string_lossy().to_string(), bytes);
            }
        }
    }
    let mut out = BTreeMap::new();
    rec(ws, ws, &mut out);
    out
}

fn lib_settings() -> UserSettings {
    static CACHE: Mutex<Option<StackedConfig>> = Mutex::new(None);
    let config = CACHE
        .lock()
        .unwrap()
        .get_or_insert_with(|| {
            let mut config = StackedConfig::with_defaults();
            let text = "user.name = \"Inspector\"\nuser.email = \"inspector@example.com\"\n\
                        operation.username = \"inspector\"\noperation.hostname = \"inspector\"\n";
            config.add_layer(ConfigLayer::parse(ConfigSource::User, text).unwrap());
            config
        })
        .clone();
    UserSettings::from_config(config).unwrap()
}

fn err_chain(e: &dyn std::error::Error) -> String {
    let mut s = e.to_string();
    let mut cur = e.source();
    while let Some(c) = cur {
        s.push_str(": ");
        s.push_str(&c.to_string());
        cur = c.source();
    }
    s
}

// ---------------------------------------------------------------------------------------------
// read-only inspection through jj-lib
// ---------------------------------------------------------------------------------------------

struct CommitData {
    parents: Vec<CommitId>,
    desc: String,
    tree_ids: Merge<TreeId>,
    /// path -> contents of every term of the (possibly conflicted) value
    files: BTreeMap<String, Vec<Vec<u8>>>,
}

struct OpData {
    parents: Vec<OperationId>,
    desc: String,
    view: View,
}

#[derive(Default)]
struct Inspect {
    heads: Vec<OperationId>,
    ops: BTreeMap<OperationId, OpData>,
    commits: BTreeMap<CommitId, CommitData>,
    problems: Vec<String>,
}

fn inspect(repo_dir: &Path) -> Inspect {
    let mut ins = Inspect::default();
    let settings = lib_settings();
    let factories = jj_lib::default_backend_factories::default_backend_factories();
    let loader = match vcommon::catch(|| RepoLoader::init_from_file_system(&settings, repo_dir, &factories)) {
        Ok(Ok(l)) => l,
        Ok(Err(e)) => {
            ins.problems.push(format!("repo does not open: {}", err_chain(&e)));
            return ins;
        }
        Err(p) => {
            ins.problems.push(format!("repo open panicked: {p}"));
            return ins;
        }
    };
    match loader.op_heads_store().get_op_heads().block_on() {
        Ok(mut h) => {
            h.sort();
            ins.heads = h;
        }
        Err(e) => {
            ins.problems.push(format!("op heads unreadable: {}", err_chain(&e)));
            return ins;
        }
    }
    let mut stack: Vec<OperationId> = ins.heads.clone();
    let mut to_visit: Vec<CommitId> = vec![];
    while let Some(id) = stack.pop() {
        if ins.ops.contains_key(&id) {
            continue;
        }
        let op = match loader.op_store().read_operation(&id).block_on() {
            Ok(op) => op,
            Err(e) => {
                ins.problems.push(format!("operation {} unreadable: {}", &id.hex()[..12], err_chain(&e)));
                continue;
            }
        };
        let view = match loader.op_store().read_view(&op.view_id).block_on() {
            Ok(v) => v,
            Err(e) => {
                ins.problems.push(format!("view of operation {} unreadable: {}", &id.hex()[..12], err_chain(&e)));
                continue;
            }
        };
        stack.extend(op.parents.iter().cloned());
        to_visit.extend(view.head_ids.iter().cloned());
        to_visit.extend(view.wc_commit_ids.values().cloned());
        ins.ops.insert(
            id,
            OpData { parents: op.parents.clone(), desc: op.metadata.description.clone(), view },
        );
    }
    let store = loader.store().clone();
    while let Some(cid) = to_visit.pop() {
        if ins.commits.contains_key(&cid) {
            continue;
        }
        let commit = match vcommon::catch(|| store.get_commit(&cid)) {
            Ok(Ok(c)) => c,
            Ok(Err(e)) => {
                ins.problems.push(format!("commit {} unreadable: {}", &cid.hex()[..12], err_chain(&e)));
                continue;
            }
            Err(p) => {
                ins.problems.push(format!("commit read panicked: {p}"));
                continue;
            }
        };
        to_visit.extend(commit.parent_ids().iter().cloned());
        let mut files: BTreeMap<String, Vec<Vec<u8>>> = BTreeMap::new();
        let tree = commit.tree();
        for (path, value) in tree.entries() {
            let value = match value {
                Ok(v) => v,
                Err(e) => {
                    ins.problems.push(format!("tree of {} unreadable at {path:?}: {}", &cid.hex()[..12], err_chain(&e)));
                    continue;
                }
            };
            let mut terms = vec![];
            for term in value.iter().flatten() {
                if let TreeValue::File { id, .. } = term {
                    let r = vcommon::catch(|| {
                        let mut reader = store.read_file(&path, id).block_on()?;
                        let mut buf = vec![];
                        futures::AsyncReadExt::read_to_end(&mut reader, &mut buf)
                            .block_on()
                            .map_err(|e| jj_lib::backend::BackendError::Other(e.into()))?;
                        Ok::<_, jj_lib::backend::BackendError>(buf)
                    });
                    match r {
                        Ok(Ok(buf)) => terms.push(buf),
                        Ok(Err(e)) => ins.problems.push(format!("file {path:?} unreadable: {}", err_chain(&e))),
                        Err(p) => ins.problems.push(format!("file read panicked: {p}")),
                    }
                }
            }
            terms.sort();
            files.insert(path.as_internal_file_string().to_string(), terms);
        }
        ins.commits.insert(
            cid,
            CommitData {
                parents: commit.parent_ids().to_vec(),
                desc: commit.description().to_string(),
                tree_ids: commit.tree_ids().clone(),
                files,
            },
        );
    }
    ins
}

impl Inspect {
    /// (path, content) of every file term in the working-copy commit of any workspace of any
    /// operation reachable from the heads.
    fn recorded(&self) -> BTreeSet<(String, Vec<u8>)> {
        let mut out = BTreeSet::new();
        let mut done: BTreeSet<&CommitId> = BTreeSet::new();
        for op in self.ops.values() {
            for cid in op.view.wc_commit_ids.values() {
                if !done.insert(cid) {
                    continue;
                }
                if let Some(c) = self.commits.get(cid) {
                    for (p, terms) in &c.files {
                        for t in terms {
                            out.insert((p.clone(), t.clone()));
                        }
                    }
                }
            }
        }
        out
    }

    fn commit_hash(&self, id: &CommitId, memo: &mut HashMap<CommitId, u64>) -> u64 {
        if let Some(h) = memo.get(id) {
            return *h;
        }
        let h = match self.commits.get(id) {
            None => vcommon::fnv(b"missing"),
            Some(c) => {
                let mut buf: Vec<u8> = vec![];
                buf.extend(c.desc.as_bytes());
                buf.push(0);
                for (p, terms) in &c.files {
                    buf.extend(p.as_bytes());
                    buf.push(1);
                    for t in terms {
                        buf.extend(t);
                        buf.push(2);
                    }
                }
                for p in &c.parents {
                    buf.extend(self.commit_hash(p, memo).to_le_bytes());
                }
                vcommon::fnv(&buf)
            }
        };
        memo.insert(id.clone(), h);
        h
    }

    fn target_hash(&self, t: &RefTarget, memo: &mut HashMap<CommitId, u64>) -> String {
        let adds: Vec<String> = t.added_ids().map(|id| format!("{:x}", self.commit_hash(id, memo))).collect();
        let rems: Vec<String> = t.removed_ids().map(|id| format!("{:x}", self.commit_hash(id, memo))).collect();
        format!("+{}-{}", adds.join(","), rems.join(","))
    }

    fn view_hash(&self, v: &View, memo: &mut HashMap<CommitId, u64>) -> u64 {
        let mut heads: Vec<u64> = v.head_ids.iter().map(|h| self.commit_hash(h, memo)).collect();
        heads.sort();
        let mut s = format!("H{heads:x?}");
        for (n, t) in &v.local_bookmarks {
            s.push_str(&format!("|b:{}={}", n.as_str(), self.target_hash(t, memo)));
        }
        for (n, t) in &v.local_tags {
            s.push_str(&format!("|t:{}={}", n.as_str(), self.target_hash(t, memo)));
        }
        for (w, c) in &v.wc_commit_ids {
            s.push_str(&format!("|w:{}={:x}", w.as_str(), self.commit_hash(c, memo)));
        }
        vcommon::fnv(s.as_bytes())
    }

    fn op_hash(&self, id: &OperationId, cmemo: &mut HashMap<CommitId, u64>, omemo: &mut HashMap<OperationId, u64>) -> u64 {
        if let Some(h) = omemo.get(id) {
            return *h;
        }
        let h = match self.ops.get(id) {
            None => vcommon::fnv(b"missing-op"),
            Some(op) => {
                let mut ps: Vec<u64> = op.parents.iter().map(|p| self.op_hash(p, cmemo, omemo)).collect();
                ps.sort();
                let s = format!("{}|{:x}|{ps:x?}", mask_ids(&op.desc), self.view_hash(&op.view, cmemo));
                vcommon::fnv(s.as_bytes())
            }
        };
        omemo.insert(id.clone(), h);
        h
    }
}

/// Replaces runs of >= 12 hex digits (commit / operation ids in operation descriptions) by `#`.
fn mask_ids(s: &str) -> String {
    let mut out = String::new();
    let mut run = String::new();
    for ch in s.chars() {
        if ch.is_ascii_hexdigit() {
            run.push(ch);
        } else {
            if run.len() >= 12 {
                out.push('#');
            } else {
                out.push_str(&run);
            }
            run.clear();
            out.push(ch);
        }
    }
    if run.len() >= 12 {
        out.push('#');
    } else {
        out.push_str(&run);
    }
    out
}

/// State of one workspace relative to the repo: "fresh" (working copy is at the head
/// operation or its recorded tree equals the tree of the commit the view wants), "stale",
/// "forgotten" (no working-copy commit in the head view), "divergent-heads", "unknown".
fn workspace_state(ws_dir: &Path, ins: &Inspect) -> (String, Option<OperationId>) {
    let settings = lib_settings();
    let ws = match vcommon::catch(|| {
        Workspace::load(
            &settings,
            ws_dir,
            &jj_lib::default_backend_factories::default_backend_factories(),
            &jj_lib::default_backend_factories::default_working_copy_factories(),
        )
    }) {
        Ok(Ok(ws)) => ws,
        _ => return ("unknown".into(), None),
    };
    let wc_op = ws.working_copy().operation_id().clone();
    if ins.heads.len() != 1 {
        return ("divergent-heads".into(), Some(wc_op));
    }
    let head = &ins.heads[0];
    let Some(op) = ins.ops.get(head) else { return ("unknown".into(), Some(wc_op)) };
    let Some(want) = op.view.wc_commit_ids.get(ws.workspace_name()) else {
        return ("forgotten".into(), Some(wc_op));
    };
    let tree_same = match (ws.working_copy().tree(), ins.commits.get(want)) {
        (Ok(t), Some(c)) => *t.tree_ids() == c.tree_ids,
        _ => false,
    };
    let st = if tree_same {
        "fresh"
    } else if wc_op == *head {
        "fresh-op-tree-differs"
    } else {
        "stale"
    };
    (st.into(), Some(wc_op))
}

// ---------------------------------------------------------------------------------------------
// actions
// ---------------------------------------------------------------------------------------------

#[derive(Clone, Copy, Debug, PartialEq, Eq, Hash, Serialize, Deserialize)]
enum Cmd {
    New,
    EditPrev,
    Describe,
    Commit,
    Squash,
    Split,
    Abandon,
    Rebase,
    Restore,
    Undo,
    OpRestore2,
    WsAdd,
    UpdateStale,
    St,
    AtOpNew,
    IgnoreWcAbandon,
    XDescribe,
    XAbandon,
    XEdit,
    XSquash,
}

const CORE: [Cmd; 9] = [
    Cmd::New,
    Cmd::Describe,
    Cmd::Squash,
    Cmd::Abandon,
    Cmd::Undo,
    Cmd::UpdateStale,
    Cmd::AtOpNew,
    Cmd::XEdit,
    Cmd::XAbandon,
];

const FULL: [Cmd; 20] = [
    Cmd::New,
    Cmd::EditPrev,
    Cmd::Describe,
    Cmd::Commit,
    Cmd::Squash,
    Cmd::Split,
    Cmd::Abandon,
    Cmd::Rebase,
    Cmd::Restore,
    Cmd::Undo,
    Cmd::OpRestore2,
    Cmd::WsAdd,
    Cmd::UpdateStale,
    Cmd::St,
    Cmd::AtOpNew,
    Cmd::IgnoreWcAbandon,
    Cmd::XDescribe,
    Cmd::XAbandon,
    Cmd::XEdit,
    Cmd::XSquash,
];

#[derive(Clone, Debug, PartialEq, Eq, Hash)]
enum Act {
    /// choose the phase (prepared root + alphabet)
    Init(usize),
    /// apply dirty pattern `dirty`, then run `cmd` in workspace `ws` (0 = default in d/, 1 = s in s/)
    Step { dirty: u8, ws: u8, cmd: Cmd },
}

const WS_DIR: [&str; 2] = ["d", "s"];
const WS_NAME: [&str; 2] = ["default", "s"];

#[derive(Clone, Debug, Serialize, Deserialize)]
struct LitEdit {
    ws: String,
    path: String,
    /// None = delete
    content: Option<String>,
}

/// A literal, self-contained step: edits, then one jj command.
#[derive(Clone, Debug, Serialize, Deserialize)]
struct LitStep {
    /// logical clock value (JJ_TIMESTAMP / JJ_OP_TIMESTAMP / JJ_RANDOMNESS_SEED)
    n: u32,
    /// directory (relative to the state directory) the command runs in
    cwd: String,
    edits: Vec<LitEdit>,
    args: Vec<String>,
    /// command class for signatures and statistics
    class: String,
    config: usize,
}

fn witness(path: &str, ws: &str, n: u32) -> String {
    format!("W:{path}@{ws}#{n}:{}\n", "x".repeat(n as usize))
}

fn s(v: &[&str]) -> Vec<String> {
    v.iter().map(|x| x.to_string()).collect()
}

/// Literal preparation script of a root. Root 0 ("S"): one workspace, commits first(f0,g0) <-
/// second(f1) and first <- @ (empty; the last command changed `f` on disk). Root 1 ("T"): S +
/// a second workspace `s`. Root 2 ("U"): T + `s` made stale (a command in `default` squashed a
/// change of `f` into s@).
fn prep_steps(root: usize, config: usize) -> Vec<LitStep> {
    let lit = |n: u32, cwd: &str, edits: Vec<LitEdit>, args: &[&str]| LitStep {
        n,
        cwd: cwd.into(),
        edits,
        args: s(args),
        class: "prep".into(),
        config,
    };
    let w = |path: &str, c: &str| LitEdit { ws: "d".into(), path: path.into(), content: Some(c.into()) };
    let mut v = vec![
        lit(1, ".", vec![], &["git", "init", "--no-colocate", "d"]),
        lit(2, "d", vec![w("f", "f0\n"), w("g", "g0\n")], &["describe", "-m", "first"]),
        lit(3, "d", vec![], &["new", "-m", "second"]),
        lit(4, "d", vec![w("f", "f1\n")], &["new", "@-"]),
    ];
    if root >= 1 {
        v.push(lit(5, "d", vec![], &["workspace", "add", "../s"]));
    }
    if root >= 2 {
        v.push(lit(6, "d", vec![w("f", "f2\n")], &["squash", "-u", "--into", "s@"]));
    }
    v
}

fn expand(dirty: u8, ws: u8, cmd: Cmd, n: u32, has_s: bool, config: usize) -> LitStep {
    let me = WS_DIR[ws as usize];
    let other_name = WS_NAME[1 - ws as usize];
    let wss: Vec<&str> = if has_s { vec!["d", "s"] } else { vec!["d"] };
    let mut edits = vec![];
    match dirty {
        0 => {}
        1 => {
            for w in &wss {
                edits.push(LitEdit { ws: w.to_string(), path: "f".into(), content: Some(witness("f", w, n)) });
            }
        }
        2 => {
            for w in &wss {
                if *w == me {
                    edits.push(LitEdit { ws: w.to_string(), path: "f".into(), content: None });
                } else {
                    edits.push(LitEdit { ws: w.to_string(), path: "g".into(), content: Some(witness("g", w, n)) });
                }
            }
        }
        _ => {
            for w in &wss {
                if *w == me {
                    let p = format!("n{n}");
                    edits.push(LitEdit { ws: w.to_string(), path: p.clone(), content: Some(witness(&p, w, n)) });
                } else {
                    edits.push(LitEdit { ws: w.to_string(), path: "f".into(), content: Some(witness("f", w, n)) });
                }
            }
        }
    }
    let other_at = format!("{other_name}@");
    let args: Vec<String> = match cmd {
        Cmd::New => s(&["new"]),
        Cmd::EditPrev => s(&["edit", "@-"]),
        Cmd::Describe => s(&["describe", "-m", &format!("d{n}")]),
        Cmd::Commit => s(&["commit", "-m", &format!("c{n}")]),
        Cmd::Squash => s(&["squash", "-u"]),
        Cmd::Split => s(&["split", "-m", &format!("s{n}"), "f"]),
        Cmd::Abandon => s(&["abandon"]),
        Cmd::Rebase => s(&["rebase", "-r", "@", "-d", "@--"]),
        Cmd::Restore => s(&["restore"]),
        Cmd::Undo => s(&["undo"]),
        Cmd::OpRestore2 => s(&["op", "restore", "@--"]),
        Cmd::WsAdd => s(&["workspace", "add", "../s"]),
        Cmd::UpdateStale => s(&["workspace", "update-stale"]),
        Cmd::St => s(&["st"]),
        Cmd::AtOpNew => s(&["--at-op", "@-", "new"]),
        Cmd::IgnoreWcAbandon => s(&["--ignore-working-copy", "abandon"]),
        Cmd::XDescribe => s(&["describe", "-m", &format!("x{n}"), &other_at]),
        Cmd::XAbandon => s(&["abandon", &other_at]),
        Cmd::XEdit => s(&["edit", &other_at]),
        Cmd::XSquash => s(&["squash", "-u", "--from", &other_at, "--into", "@"]),
    };
    LitStep { n, cwd: me.to_string(), edits, args, class: format!("{cmd:?}"), config }
}

// ---------------------------------------------------------------------------------------------
// states and the transition function
// ---------------------------------------------------------------------------------------------

#[derive(Clone, Debug, PartialEq, Eq, PartialOrd, Ord)]
struct Ghost {
    ws: String,
    path: String,
    content: Vec<u8>,
    /// clock value of the first command that started with this content on disk
    since: u32,
    /// found in the operation log by an earlier oracle evaluation
    recorded: bool,
}

struct StateData {
    dir: PathBuf,
    n: u32,
    has_s: bool,
    ghosts: Vec<Ghost>,
    /// workspace dir -> state after the last command
    ws_state: BTreeMap<String, String>,
    key: String,
}

#[derive(Default)]
struct Stats {
    commands: AtomicU64,
    exit_ok: AtomicU64,
    exit_err: AtomicU64,
    stale_refusals: AtomicU64,
    panics: AtomicU64,
    ghost_checks: AtomicU64,
    ghosts_recorded: AtomicU64,
    ghosts_only_on_disk: AtomicU64,
    /// a witness that was on disk at command start, is gone from the disk after the command
    /// and was found in the operation log: the command replaced it and had recorded it first
    overwritten_but_recorded: AtomicU64,
    acting_ws_stale_before: AtomicU64,
    other_ws_stale_before: AtomicU64,
    stale_updates_done: AtomicU64,
    divergent_ops_merged: AtomicU64,
    per_class: Mutex<BTreeMap<String, [u64; 4]>>, // [runs, ok, overwritten_but_recorded, became-stale-other]
}

struct StepOutcome {
    ok: bool,
    stderr: String,
    state: StateData,
    violations: Vec<(String, String)>,
}

fn ws_dirs(dir: &Path) -> Vec<&'static str> {
    WS_DIR.iter().copied().filter(|w| dir.join(w).join(".jj").exists()).collect()
}

/// Executes one literal step in `dir` (in place) starting from the bookkeeping of `parent`.
fn exec_step(env: &Env, dir: &Path, parent_ghosts: &[Ghost], parent_ws_state: &BTreeMap<String, String>, lit: &LitStep, stats: &Stats) -> StepOutcome {
    let mut ghosts: Vec<Ghost> = parent_ghosts.to_vec();
    for e in &lit.edits {
        let p = dir.join(&e.ws).join(&e.path);
        // the user replaces this file: a witness that is still only on disk is destroyed by the
        // user, not by jj, and leaves the ghost set
        ghosts.retain(|g| g.recorded || !(g.ws == e.ws && g.path == e.path));
        match &e.content {
            Some(c) => std::fs::write(&p, c).unwrap_or_else(|err| vcommon::machinery_failure(&format!("cannot write {p:?}: {err}"))),
            None => {
                let _ = std::fs::remove_file(&p);
            }
        }
    }
    // ghosts: every harness-written content that is on disk when the command starts
    let mut pre_disk: BTreeMap<String, BTreeMap<String, Vec<u8>>> = BTreeMap::new();
    for w in ws_dirs(dir) {
        let files = disk_files(&dir.join(w));
        for (p, c) in &files {
            if c.starts_with(b"W:") && !ghosts.iter().any(|g| g.ws == w && g.path == *p && g.content == *c) {
                ghosts.push(Ghost { ws: w.to_string(), path: p.clone(), content: c.clone(), since: lit.n, recorded: false });
            }
        }
        pre_disk.insert(w.to_string(), files);
    }
    let out = env.run(&dir.join(&lit.cwd), lit.n, lit.config, &lit.args);
    stats.commands.fetch_add(1, Ordering::Relaxed);
    let ok = out.code == Some(0);
    if ok {
        stats.exit_ok.fetch_add(1, Ordering::Relaxed);
    } else {
        stats.exit_err.fetch_add(1, Ordering::Relaxed);
    }
    if out.stderr.contains("working copy is stale") {
        stats.stale_refusals.fetch_add(1, Ordering::Relaxed);
    }
    if out.code == Some(101) || out.code.is_none() {
        stats.panics.fetch_add(1, Ordering::Relaxed);
    }
    if out.stderr.contains("Updated working copy to fresh commit") {
        stats.stale_updates_done.fetch_add(1, Ordering::Relaxed);
    }
    if out.stderr.contains("Concurrent modification detected") {
        stats.divergent_ops_merged.fetch_add(1, Ordering::Relaxed);
    }
    let acting_before = parent_ws_state.get(&lit.cwd).cloned().unwrap_or_else(|| "none".into());
    if acting_before == "stale" {
        stats.acting_ws_stale_before.fetch_add(1, Ordering::Relaxed);
    }
    if parent_ws_state.iter().any(|(w, st)| *w != lit.cwd && st == "stale") {
        stats.other_ws_stale_before.fetch_add(1, Ordering::Relaxed);
    }

    // observe
    let mut violations = vec![];
    let repo_dir = dir.join("d/.jj/repo");
    let ins = if repo_dir.exists() { inspect(&repo_dir) } else { Inspect::default() };
    for p in &ins.problems {
        violations.push((
            format!("C40/repo-unreadable/{}", lit.class),
            format!("after `jj {}`: {p}", lit.args.join(" ")),
        ));
    }
    let recorded = ins.recorded();
    let mut post_disk: BTreeMap<String, BTreeMap<String, Vec<u8>>> = BTreeMap::new();
    for w in ws_dirs(dir) {
        post_disk.insert(w.to_string(), disk_files(&dir.join(w)));
    }
    let mut overwritten = 0u64;
    if ins.problems.is_empty() {
        for g in ghosts.iter_mut() {
            stats.ghost_checks.fetch_add(1, Ordering::Relaxed);
            let on_disk = post_disk.get(&g.ws).and_then(|d| d.get(&g.path)) == Some(&g.content);
            let rec = recorded.contains(&(g.path.clone(), g.content.clone()));
            g.recorded = rec;
            if rec {
                stats.ghosts_recorded.fetch_add(1, Ordering::Relaxed);
            } else if on_disk {
                stats.ghosts_only_on_disk.fetch_add(1, Ordering::Relaxed);
            }
            let was_on_disk = pre_disk.get(&g.ws).and_then(|d| d.get(&g.path)) == Some(&g.content);
            if was_on_disk && !on_disk && rec {
                overwritten += 1;
            }
            if !rec && !on_disk {
                let rel = if g.ws == lit.cwd { "same-ws" } else { "other-ws" };
                let st = parent_ws_state.get(&g.ws).cloned().unwrap_or_else(|| "none".into());
                let now = match post_disk.get(&g.ws).and_then(|d| d.get(&g.path)) {
                    Some(c) => format!("{:?}", String::from_utf8_lossy(c)),
                    None => "absent".to_string(),
                };
                violations.push((
                    format!("C40/lost/{}/{rel}/{st}", lit.class),
                    format!(
                        "{}/{} = {:?} was on disk when command #{} started; after `jj {}` (in {}, exit {:?}) the file is {now} and no \
                         operation's working-copy commit contains that content. stderr: {}",
                        g.ws,
                        g.path,
                        String::from_utf8_lossy(&g.content),
                        g.since,
                        lit.args.join(" "),
                        lit.cwd,
                        out.code,
                        out.stderr.chars().take(400).collect::<String>()
                    ),
                ));
            }
        }
    }
    stats.overwritten_but_recorded.fetch_add(overwritten, Ordering::Relaxed);

    // bookkeeping for the successors + canonical key
    let mut ws_state = BTreeMap::new();
    let mut cmemo = HashMap::new();
    let mut omemo = HashMap::new();
    let mut key = String::new();
    let mut hs: Vec<u64> = ins.heads.iter().map(|h| ins.op_hash(h, &mut cmemo, &mut omemo)).collect();
    hs.sort();
    key.push_str(&format!("ops{hs:x?}"));
    let mut other_became_stale = 0;
    for w in ws_dirs(dir) {
        let (st, wc_op) = workspace_state(&dir.join(w), &ins);
        if st == "stale" && w != lit.cwd && parent_ws_state.get(w).map(|x| x.as_str()) != Some("stale") {
            other_became_stale = 1;
        }
        let oh = wc_op.map(|o| ins.op_hash(&o, &mut cmemo, &mut omemo)).unwrap_or(0);
        key.push_str(&format!("|{w}:{st}:{oh:x}:"));
        let mut buf = vec![];
        for (p, c) in post_disk.get(w).into_iter().flatten() {
            buf.extend(p.as_bytes());
            buf.push(0);
            buf.extend(c);
            buf.push(1);
        }
        key.push_str(&format!("{:x}", vcommon::fnv(&buf)));
        ws_state.insert(w.to_string(), st);
    }
    {
        let mut pc = stats.per_class.lock().unwrap();
        let e = pc.entry(lit.class.clone()).or_insert([0; 4]);
        e[0] += 1;
        e[1] += ok as u64;
        e[2] += overwritten;
        e[3] += other_became_stale;
    }
    let has_s = dir.join("s/.jj").exists();
    StepOutcome {
        ok,
        stderr: out.stderr.clone(),
        state: StateData { dir: dir.to_path_buf(), n: lit.n, has_s, ghosts, ws_state, key },
        violations,
    }
}

struct Phase {
    name: &'static str,
    /// 0 = S (one workspace), 1 = T (two workspaces), 2 = U (two workspaces, `s` stale)
    root: usize,
    config: usize,
    cmds: Vec<Cmd>,
    patterns: Vec<u8>,
    depth: usize,
}

fn enabled(phase: &Phase, st: &StateData, depth_done: usize) -> Vec<Act> {
    if depth_done >= phase.depth {
        return vec![];
    }
    let mut out = vec![];
    for &dirty in &phase.patterns {
        for ws in 0..2u8 {
            if ws == 1 && !st.has_s {
                continue;
            }
            for &cmd in &phase.cmds {
                let cross = matches!(cmd, Cmd::XDescribe | Cmd::XAbandon | Cmd::XEdit | Cmd::XSquash);
                if cross && !st.has_s {
                    continue;
                }
                if cmd == Cmd::WsAdd && (st.has_s || ws != 0) {
                    continue;
                }
                out.push(Act::Step { dirty, ws, cmd });
            }
        }
    }
    out
}

fn phases(thorough: bool) -> Vec<Phase> {
    let single: Vec<Cmd> = FULL
        .iter()
        .copied()
        .filter(|c| !matches!(c, Cmd::XDescribe | Cmd::XAbandon | Cmd::XEdit | Cmd::XSquash))
        .collect();
    let mut v = vec![
        Phase { name: "S:one-ws/full/P1/d1", root: 0, config: 0, cmds: single.clone(), patterns: vec![1], depth: 1 },
        Phase { name: "U:two-ws-stale/core/P1/d1", root: 2, config: 0, cmds: CORE.to_vec(), patterns: vec![1], depth: 1 },
        Phase { name: "T:two-ws/core/P1/d2", root: 1, config: 0, cmds: CORE.to_vec(), patterns: vec![1], depth: 2 },
    ];
    if thorough {
        v.push(Phase { name: "U:two-ws-stale/full/P0-P3/d1", root: 2, config: 0, cmds: FULL.to_vec(), patterns: vec![0, 1, 2, 3], depth: 1 });
        v.push(Phase { name: "U:two-ws-stale/core/P1/d1/auto-update-stale", root: 2, config: 1, cmds: CORE.to_vec(), patterns: vec![1], depth: 1 });
        v.push(Phase { name: "T:two-ws/full/P1/d2", root: 1, config: 0, cmds: FULL.to_vec(), patterns: vec![1], depth: 2 });
        v.push(Phase { name: "U:two-ws-stale/core/P1/d2", root: 2, config: 0, cmds: CORE.to_vec(), patterns: vec![1], depth: 2 });
        v.push(Phase { name: "T:two-ws/core/P1/d2/auto-update-stale", root: 1, config: 1, cmds: CORE.to_vec(), patterns: vec![1], depth: 2 });
        v.push(Phase { name: "S:one-ws/full/P0P1/d2", root: 0, config: 0, cmds: FULL.to_vec(), patterns: vec![0, 1], depth: 2 });
        v.push(Phase { name: "T:two-ws/core/P0-P3/d2", root: 1, config: 0, cmds: CORE.to_vec(), patterns: vec![0, 1, 2, 3], depth: 2 });
        v.push(Phase { name: "T:two-ws/core/P1/d3", root: 1, config: 0, cmds: CORE.to_vec(), patterns: vec![1], depth: 3 });
    }
    v
}

fn root_name(root: usize) -> &'static str {
    ["S: one workspace", "T: two workspaces", "U: two workspaces, s stale"][root]
}

fn fresh_dir(env: &Env) -> PathBuf {
    static N: AtomicU64 = AtomicU64::new(0);
    env.root.join(format!("st/{}", N.fetch_add(1, Ordering::Relaxed)))
}

/// Builds a state from scratch: prepared root + the literal steps, oracle on every step.
fn run_from_scratch(env: &Env, prep: &[LitStep], steps: &[LitStep], stats: &Stats) -> (StateData, Vec<(String, String)>) {
    let dir = fresh_dir(env);
    std::fs::create_dir_all(&dir).unwrap();
    let mut ghosts = vec![];
    let mut ws_state = BTreeMap::new();
    let mut violations = vec![];
    let mut last = None;
    for (i, lit) in prep.iter().chain(steps.iter()).enumerate() {
        let o = exec_step(env, &dir, &ghosts, &ws_state, lit, stats);
        if i < prep.len() && !o.ok {
            vcommon::machinery_failure(&format!("preparation command jj {:?} failed: {}", lit.args, o.stderr));
        }
        if i < prep.len() && !o.violations.is_empty() {
            vcommon::machinery_failure(&format!("oracle fails during root preparation: {:?}", o.violations));
        }
        violations.extend(o.violations);
        ghosts = o.state.ghosts.clone();
        ws_state = o.state.ws_state.clone();
        last = Some(o.state);
    }
    (last.unwrap(), violations)
}

fn case_json(phase: &Phase, prep: &[LitStep], steps: &[LitStep]) -> Value {
    json!({ "phase": phase.name, "prep": prep, "steps": steps })
}

fn main() {
    let ctx = Ctx::from_args("C40", Level::ModelChecking);
    vcommon::silence_panics();
    let jjv = std::env::var("JJV_BIN")
        .map(PathBuf::from)
        .unwrap_or_else(|_| std::env::current_exe().unwrap().parent().unwrap().join("jjv"));
    if !jjv.exists() {
        vcommon::machinery_failure("the jj binary (jjv) has not been built");
    }
    let env = Env::new(ctx.scratch(), jjv);
    let stats = Stats::default();

    if let Some((_sig, case)) = ctx.replay_case() {
        let prep: Vec<LitStep> = serde_json::from_value(case["prep"].clone())
            .unwrap_or_else(|e| vcommon::machinery_failure(&format!("bad replay file: {e}")));
        let steps: Vec<LitStep> = serde_json::from_value(case["steps"].clone())
            .unwrap_or_else(|e| vcommon::machinery_failure(&format!("bad replay file: {e}")));
        let (_st, violations) = run_from_scratch(&env, &prep, &steps, &stats);
        for (sig, msg) in violations {
            println!("replay: {sig}: {msg}");
            ctx.violation(&sig, msg, case.clone());
        }
        ctx.finish(Coverage { evaluations: 1, ..Default::default() });
    }

    let phases = phases(ctx.thorough());
    // wall-clock cap (the machine is shared: one jj command costs 0.2 s when idle and several
    // seconds under load); VERIF_WALL_CAP_S overrides it, e.g. to complete the bound on a loaded machine
    let wall_cap = std::env::var("VERIF_WALL_CAP_S")
        .ok()
        .and_then(|v| v.parse::<f64>().ok())
        .unwrap_or(ctx.pick(25.0, 1200.0));
    let capped = AtomicBool::new(false);
    let skipped = AtomicU64::new(0);
    let start = Instant::now();
    let states: Mutex<HashMap<Vec<Act>, Arc<StateData>>> = Mutex::new(HashMap::new());
    let lits: Mutex<HashMap<Vec<Act>, Vec<LitStep>>> = Mutex::new(HashMap::new());
    let samples = vcommon::Samples::new(6);
    let nontrivial = AtomicU64::new(0);
    let max_depth = phases.iter().map(|p| p.depth).max().unwrap() + 1;
    // determinism gate: fixed histories that a separate thread rebuilds from scratch while the
    // search runs; the search records the key it reached for the same histories
    let gate_histories: Vec<Vec<Act>> = vec![
        vec![Act::Init(0), Act::Step { dirty: 1, ws: 0, cmd: Cmd::Undo }],
        vec![Act::Init(1), Act::Step { dirty: 1, ws: 1, cmd: Cmd::UpdateStale }],
        vec![Act::Init(2), Act::Step { dirty: 1, ws: 0, cmd: Cmd::XEdit }, Act::Step { dirty: 1, ws: 1, cmd: Cmd::Undo }],
    ];
    let gate_seen: Mutex<HashMap<Vec<Act>, String>> = Mutex::new(HashMap::new());
    // per action label: (runs, runs that changed the canonical state)
    let changed: Mutex<BTreeMap<String, (u64, u64)>> = Mutex::new(BTreeMap::new());

    // prepared roots (in parallel; every phase starts from a copy-on-use root directory)
    let mut root_kinds: Vec<(usize, usize)> = phases.iter().map(|p| (p.root, p.config)).collect();
    root_kinds.sort();
    root_kinds.dedup();
    let roots: HashMap<(usize, usize), Arc<StateData>> = {
        use rayon::prelude::*;
        root_kinds
            .par_iter()
            .map(|&(root, config)| {
                let (st, _) = run_from_scratch(&env, &prep_steps(root, config), &[], &stats);
                ((root, config), Arc::new(st))
            })
            .collect()
    };
    if roots[&(root_kinds.iter().find(|k| k.0 == 2).copied().unwrap_or((2, 0)))].ws_state.get("s").map(|x| x.as_str()) != Some("stale") {
        vcommon::machinery_failure("root U: workspace s is not stale after the preparation script");
    }
    let prep_commands = stats.commands.load(Ordering::Relaxed);

    // the wall-clock budget of the search starts when the roots are prepared
    let start = Instant::now();
    let step = |h: &[Act]| -> Option<bfs::StepResult<Act>> {
        if h.is_empty() {
            return Some(bfs::StepResult { key: "root".into(), actions: (0..phases.len()).map(Act::Init).collect() });
        }
        let Act::Init(pi) = h[0] else { unreachable!() };
        let phase = &phases[pi];
        if h.len() == 1 {
            let st = roots[&(phase.root, phase.config)].clone();
            let acts = enabled(phase, &st, 0);
            let key = format!("{}|{}", phase.name, st.key);
            states.lock().unwrap().insert(h.to_vec(), st);
            lits.lock().unwrap().insert(h.to_vec(), vec![]);
            return Some(bfs::StepResult { key, actions: acts });
        }
        // the gate histories are always executed, so that the determinism gate never depends on the cap
        if start.elapsed().as_secs_f64() > wall_cap && !gate_histories.iter().any(|g| g.starts_with(h)) {
            capped.store(true, Ordering::Relaxed);
            skipped.fetch_add(1, Ordering::Relaxed);
            return None;
        }
        let parent_h = &h[..h.len() - 1];
        let parent = states.lock().unwrap().get(parent_h).cloned();
        let parent = parent.unwrap_or_else(|| vcommon::machinery_failure("parent state of a BFS history is missing"));
        let mut steps = lits.lock().unwrap().get(parent_h).cloned().unwrap();
        let Act::Step { dirty, ws, cmd } = h[h.len() - 1].clone() else { unreachable!() };
        let lit = expand(dirty, ws, cmd, parent.n + 1, parent.has_s, phase.config);
        let dir = fresh_dir(&env);
        copy_tree(&parent.dir, &dir);
        let o = exec_step(&env, &dir, &parent.ghosts, &parent.ws_state, &lit, &stats);
        steps.push(lit);
        if !o.violations.is_empty() {
            let prep = prep_steps(phase.root, phase.config);
            for (sig, msg) in &o.violations {
                ctx.violation(sig, msg.clone(), case_json(phase, &prep, &steps));
            }
        }
        // non-trivial: the command started with at least one witness on disk that no operation had recorded yet
        if !o.state.ghosts.is_empty() {
            nontrivial.fetch_add(1, Ordering::Relaxed);
        }
        if h.len() == phase.depth + 1 {
            samples.offer(|| json!({"phase": phase.name, "steps": steps.iter().map(|l| json!({"in": l.cwd, "edits": l.edits, "jj": l.args})).collect::<Vec<_>>()}));
        }
        let acts = enabled(phase, &o.state, h.len() - 1);
        let key = format!("{}|{}", phase.name, o.state.key);
        {
            let mut ch = changed.lock().unwrap();
            let e = ch.entry(format!("{cmd:?}@{}/P{dirty}", WS_DIR[ws as usize])).or_insert((0, 0));
            e.0 += 1;
            e.1 += (o.state.key != parent.key) as u64;
        }
        if gate_histories.iter().any(|g| g == h) {
            gate_seen.lock().unwrap().insert(h.to_vec(), o.state.key.clone());
        }
        if acts.is_empty() {
            // leaf: nothing will be built on it
            let _ = std::fs::remove_dir_all(&o.state.dir);
        } else {
            states.lock().unwrap().insert(h.to_vec(), Arc::new(o.state));
            lits.lock().unwrap().insert(h.to_vec(), steps);
        }
        Some(bfs::StepResult { key, actions: acts })
    };
    let label = |a: &Act| match a {
        Act::Init(i) => format!("init:{}", phases[*i].name),
        Act::Step { dirty, ws, cmd } => format!("{cmd:?}@{}/P{dirty}", WS_DIR[*ws as usize]),
    };
    let cfg = bfs::BfsConfig { max_depth, max_states: u64::MAX, max_wall_s: f64::MAX };
    let (st, gate_keys) = std::thread::scope(|sc| {
        let gate = sc.spawn(|| {
            use rayon::prelude::*;
            gate_histories
                .par_iter()
                .map(|h| {
                    let Act::Init(pi) = h[0] else { unreachable!() };
                    let phase = &phases[pi];
                    let scratch_stats = Stats::default();
                    let (mut st, _) = run_from_scratch(&env, &prep_steps(phase.root, phase.config), &[], &scratch_stats);
                    for a in &h[1..] {
                        let Act::Step { dirty, ws, cmd } = a.clone() else { unreachable!() };
                        let lit = expand(dirty, ws, cmd, st.n + 1, st.has_s, phase.config);
                        let o = exec_step(&env, &st.dir.clone(), &st.ghosts, &st.ws_state, &lit, &scratch_stats);
                        st = o.state;
                    }
                    (h.clone(), st.key)
                })
                .collect::<Vec<_>>()
        });
        let st = bfs::search(&cfg, step, label);
        (st, gate.join().unwrap())
    });
    let mut gate_checked = 0u64;
    for (h, key) in &gate_keys {
        if let Some(k) = gate_seen.lock().unwrap().get(h) {
            if k != key {
                vcommon::machinery_failure(&format!(
                    "nondeterministic replay: history {h:?} reached key {k} by snapshot copies and {key} from scratch"
                ));
            }
            gate_checked += 1;
        }
    }
    if gate_checked == 0 {
        vcommon::machinery_failure("determinism gate: none of the gate histories was reached by the search");
    }

    // vacuity
    let per_class = stats.per_class.lock().unwrap().clone();
    // per command kind (over all workspaces and dirty patterns): a kind that never changed any state is vacuous
    let never_new: Vec<String> = {
        let ch = changed.lock().unwrap();
        let mut per_cmd: BTreeMap<String, (u64, u64)> = BTreeMap::new();
        for (k, v) in ch.iter() {
            let e = per_cmd.entry(k.split('@').next().unwrap().to_string()).or_insert((0, 0));
            e.0 += v.0;
            e.1 += v.1;
        }
        per_cmd.iter().filter(|(_, (n, c))| *n > 0 && *c == 0).map(|(l, _)| l.clone()).collect()
    };
    if !capped.load(Ordering::Relaxed) {
        if !never_new.is_empty() {
            vcommon::machinery_failure(&format!("vacuous: actions that never changed the state: {never_new:?}"));
        }
        if stats.overwritten_but_recorded.load(Ordering::Relaxed) == 0
            || stats.acting_ws_stale_before.load(Ordering::Relaxed) == 0
            || stats.stale_updates_done.load(Ordering::Relaxed) == 0
        {
            vcommon::machinery_failure("vacuous: no command ever replaced an unsnapshotted file / no stale workspace was ever recovered");
        }
    }

    let mut extra: BTreeMap<String, Value> = BTreeMap::new();
    extra.insert("phases".into(), json!(phases.iter().map(|p| json!({"name": p.name, "root": root_name(p.root), "commands": p.cmds.iter().map(|c| format!("{c:?}")).collect::<Vec<_>>(), "dirty_patterns": p.patterns, "depth_in_commands": p.depth, "auto_update_stale": p.config == 1})).collect::<Vec<_>>()));
    extra.insert("jj_commands_executed".into(), json!(stats.commands.load(Ordering::Relaxed)));
    extra.insert("jj_commands_for_root_preparation".into(), json!(prep_commands));
    extra.insert("commands_exit_0".into(), json!(stats.exit_ok.load(Ordering::Relaxed)));
    extra.insert("commands_exit_nonzero".into(), json!(stats.exit_err.load(Ordering::Relaxed)));
    extra.insert("refused_because_stale".into(), json!(stats.stale_refusals.load(Ordering::Relaxed)));
    extra.insert("jj_panics_or_signals".into(), json!(stats.panics.load(Ordering::Relaxed)));
    extra.insert("ghost_checks".into(), json!(stats.ghost_checks.load(Ordering::Relaxed)));
    extra.insert("ghosts_found_in_op_log".into(), json!(stats.ghosts_recorded.load(Ordering::Relaxed)));
    extra.insert("ghosts_unrecorded_but_still_on_disk".into(), json!(stats.ghosts_only_on_disk.load(Ordering::Relaxed)));
    extra.insert("witness_replaced_on_disk_and_found_in_op_log".into(), json!(stats.overwritten_but_recorded.load(Ordering::Relaxed)));
    extra.insert("commands_started_in_a_stale_workspace".into(), json!(stats.acting_ws_stale_before.load(Ordering::Relaxed)));
    extra.insert("commands_started_while_other_workspace_stale".into(), json!(stats.other_ws_stale_before.load(Ordering::Relaxed)));
    extra.insert("stale_working_copies_updated".into(), json!(stats.stale_updates_done.load(Ordering::Relaxed)));
    extra.insert("divergent_operations_merged".into(), json!(stats.divergent_ops_merged.load(Ordering::Relaxed)));
    extra.insert(
        "per_command_class".into(),
        json!(per_class.iter().map(|(k, v)| (k.clone(), json!({"runs": v[0], "exit_0": v[1], "witness_replaced_and_recorded": v[2], "made_other_workspace_stale": v[3]}))).collect::<BTreeMap<_, _>>()),
    );
    extra.insert("per_depth_new_states".into(), json!(st.per_depth_states));
    extra.insert("max_depth_completed_incl_root_level".into(), json!(st.max_depth_completed));
    extra.insert("wall_cap_s".into(), json!(wall_cap));
    extra.insert("transitions_skipped_by_wall_cap".into(), json!(skipped.load(Ordering::Relaxed)));
    extra.insert("determinism_gate_histories_rebuilt_from_scratch".into(), json!(gate_checked));
    extra.insert("command_kinds_that_never_changed_the_state".into(), json!(never_new));
    extra.insert(
        "per_action_runs_and_state_changes".into(),
        json!(changed.lock().unwrap().iter().map(|(k, v)| (k.clone(), json!([v.0, v.1]))).collect::<BTreeMap<_, _>>()),
    );
    let exhaustive = !capped.load(Ordering::Relaxed);
    let cov = Coverage {
        evaluations: st.transitions,
        distinct_nontrivial: nontrivial.load(Ordering::Relaxed),
        rule: "every sequence of (dirty pattern, workspace, command) actions of each phase up to the phase's depth, from a prepared \
               root (one or two workspaces); one evaluation = one transition = copy of the parent directory + edits + one real jj \
               command + the ghost oracle over the whole history; non-trivial = transitions whose history has at least one witness \
               file content that was on disk when some command started"
            .into(),
        samples: samples.take(),
        exhaustive,
        states: Some(st.states),
        transitions: Some(st.transitions),
        traces_validated_against_impl: Some(st.transitions),
        extra,
        assumptions: vec![
            "commands run one at a time (no concurrent jj processes; that is C14)".into(),
            "a file state counts as recorded when some working-copy commit of some operation reachable from the operation heads has it at the same path (any term of a conflict)".into(),
            "only contents written by the harness are tracked; contents written by jj's own checkout come from stored commits".into(),
            "git backend, non-colocated; fsmonitor off; default auto-track and max-new-file-size".into(),
        ],
    };
    ctx.finish(cov);
}

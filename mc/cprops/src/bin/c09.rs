//! C09 — Moving changes down a stack never alters the snapshots above it.
//!
//! States are small commit graphs ("stacks") built from scratch through the real API: every
//! commit applies line-level edits (modify / insert / delete a line, rewrite or remove the file)
//! to the merged tree of its parents, one commit is the working-copy commit. Transitions are the
//! three operations of the statement:
//!   * lib engine: `rewrite::squash_commits` of a whole single-parent commit into its parent,
//!     and `absorb::split_hunks_to_trees` + `absorb::absorb_hunks`, each followed by
//!     `MutableRepo::rebase_descendants` (what `jj squash` / `jj absorb` do inside their
//!     transaction), on an in-memory test backend;
//!   * cli engine: the real `jj` binary (`$JJV_BIN`) run as a child process on a real
//!     workspace (Git backend, files on disk): `jj split -r X -m .. <paths>`,
//!     `jj squash -r X -u`, `jj absorb --from X [--into ..]`; the states before and after are
//!     read back from the operation log (repo at the parent of the head operation / at the
//!     head operation), so a snapshot of a dirty working copy taken by the command itself is
//!     part of the "before" state.
//! On every transition (old state S, new state S', source commit X):
//!   (a) the topmost resulting commit (squash: the rewritten parent; split: the second commit;
//!       absorb: the reparented source, or its rewritten parent when the emptied source was
//!       abandoned) has exactly X's old tree ids;
//!   (b) every proper descendant of X still exists (same change id) with exactly its old tree
//!       ids, and the working-copy commit of S' has the tree ids the working-copy commit of S
//!       had whenever that one was X or a descendant of X;
//!   (c) every commit that is not a descendant-or-self of a possible receiver (squash: the
//!       parent; split: X; absorb: the destination candidates among X's ancestors) keeps its
//!       commit id and stays visible.
//! Nothing is demanded of the receivers and of the commits between them and the source.

use std::cell::RefCell;
use std::collections::BTreeMap;
use std::collections::BTreeSet;
use std::collections::HashMap;
use std::collections::HashSet;
use std::path::Path;
use std::path::PathBuf;
use std::rc::Rc;
use std::sync::Arc;
use std::sync::Mutex;
use std::sync::atomic::AtomicUsize;
use std::sync::atomic::Ordering;

use jj_lib::absorb::AbsorbSource;
use jj_lib::absorb::absorb_hunks;
use jj_lib::absorb::split_hunks_to_trees;
use jj_lib::backend::ChangeId;
use jj_lib::backend::CommitId;
use jj_lib::backend::CopyId;
use jj_lib::backend::MergedTreeValue;
use jj_lib::backend::MillisSinceEpoch;
use jj_lib::backend::Signature;
use jj_lib::backend::Timestamp;
use jj_lib::backend::TreeValue;
use jj_lib::commit::Commit;
use jj_lib::config::ConfigLayer;
use jj_lib::config::ConfigSource;
use jj_lib::default_backend_factories::default_backend_factories;
use jj_lib::matchers::EverythingMatcher;
use jj_lib::merge::Merge;
use jj_lib::merged_tree::MergedTree;
use jj_lib::merged_tree_builder::MergedTreeBuilder;
use jj_lib::object_id::ObjectId as _;
use jj_lib::ref_name::WorkspaceName;
use jj_lib::repo::MutableRepo;
use jj_lib::repo::ReadonlyRepo;
use jj_lib::repo::Repo;
use jj_lib::repo::RepoLoader;
use jj_lib::repo_path::RepoPathBuf;
use jj_lib::revset::RevsetExpression;
use jj_lib::rewrite::CommitWithSelection;
use jj_lib::rewrite::merge_commit_trees;
use jj_lib::rewrite::squash_commits;
use jj_lib::settings::UserSettings;
use jj_lib::workspace::Workspace;
use pollster::FutureExt as _;
use rayon::prelude::*;
use serde::Deserialize;
use serde::Serialize;
use serde_json::Value;
use serde_json::json;
use testutils::TestRepo;
use vcommon::Counter;
use vcommon::Coverage;
use vcommon::Ctx;
use vcommon::Level;
use vcommon::Samples;
use vcommon::catch;
use vcommon::enumerate::decode;
use vcommon::enumerate::product;
use vcommon::machinery_failure;

// ---------------------------------------------------------------------------------------
// Case description (self-contained and serialisable: this is what a replay file holds)
// ---------------------------------------------------------------------------------------

#[derive(Clone, Debug, Serialize, Deserialize, PartialEq, Eq)]
struct CommitSpec {
    /// labels of earlier commits; empty = child of the root commit
    parents: Vec<usize>,
    /// (path, edit) applied in order to the merged parents' tree; edits are
    /// `new` (rewrite the whole file with three fresh lines), `mod<i>` (replace line i by a
    /// fresh line), `same<i>` (replace line i by the commit-independent line `Z<i>`),
    /// `ins<i>` (insert a fresh line before line i), `del<i>`, `rm` (remove the file)
    edits: Vec<(String, String)>,
    /// empty description (a commit jj may discard when it becomes empty)
    #[serde(default)]
    nodesc: bool,
}

#[derive(Clone, Debug, Serialize, Deserialize, PartialEq, Eq)]
#[serde(tag = "op", rename_all = "lowercase")]
enum OpSpec {
    /// squash the whole commit x into its only parent
    Squash { x: usize },
    /// absorb from x into the given ancestors (None = every mutable commit)
    Absorb { x: usize, into: Option<Vec<usize>> },
    /// split x; the given paths go to the first commit (cli engine only); `legacy` is the value
    /// of the setting split.legacy-bookmark-behavior (jj's default is true: the split commit is
    /// recorded as rewritten into the second commit, otherwise into the first one)
    Split {
        x: usize,
        paths: Vec<String>,
        #[serde(default = "default_true")]
        legacy: bool,
    },
}

fn default_true() -> bool {
    true
}

impl OpSpec {
    fn x(&self) -> usize {
        match self {
            OpSpec::Squash { x } | OpSpec::Absorb { x, .. } | OpSpec::Split { x, .. } => *x,
        }
    }
    fn name(&self) -> &'static str {
        match self {
            OpSpec::Squash { .. } => "squash",
            OpSpec::Absorb { .. } => "absorb",
            OpSpec::Split { .. } => "split",
        }
    }
}

#[derive(Clone, Debug, Serialize, Deserialize, PartialEq, Eq)]
struct Case {
    /// "lib" or "cli"
    engine: String,
    commits: Vec<CommitSpec>,
    /// label of the working-copy commit
    wc: usize,
    /// operations applied one after the other (the oracle runs on each)
    ops: Vec<OpSpec>,
    /// cli engine: the working-copy commit's edits exist only on disk (the command snapshots them)
    #[serde(default)]
    dirty: bool,
}

fn ce(path: &str, edit: &str) -> (String, String) {
    (path.to_string(), edit.to_string())
}

// ---------------------------------------------------------------------------------------
// Content model used to *construct* inputs (never used by the oracle)
// ---------------------------------------------------------------------------------------

const MAX_LINES: usize = 4;

#[derive(Clone, Debug, PartialEq, Eq)]
enum PState {
    Absent,
    File(Vec<String>),
    /// conflicted or not a regular file
    Other,
}

#[derive(Clone, Copy, Debug, PartialEq, Eq)]
enum Ed {
    New,
    Mod(usize),
    Same(usize),
    Ins(usize),
    Del(usize),
    Rm,
}

fn parse_ed(s: &str) -> Ed {
    let idx = |p: &str| -> usize {
        s[p.len()..].parse().unwrap_or_else(|_| machinery_failure(&format!("bad edit {s}")))
    };
    if s == "new" {
        Ed::New
    } else if s == "rm" {
        Ed::Rm
    } else if s.starts_with("mod") {
        Ed::Mod(idx("mod"))
    } else if s.starts_with("same") {
        Ed::Same(idx("same"))
    } else if s.starts_with("ins") {
        Ed::Ins(idx("ins"))
    } else if s.starts_with("del") {
        Ed::Del(idx("del"))
    } else {
        machinery_failure(&format!("bad edit {s}"))
    }
}

/// `None`: the edit is not applicable to this state (the case is not part of the space).
fn apply_ed(state: &PState, ed: Ed, fresh: &mut dyn FnMut() -> String) -> Option<PState> {
    match (ed, state) {
        (Ed::New, _) => Some(PState::File(vec![fresh(), fresh(), fresh()])),
        (Ed::Rm, PState::Absent) => None,
        (Ed::Rm, _) => Some(PState::Absent),
        (_, PState::Absent | PState::Other) => None,
        (Ed::Mod(i), PState::File(lines)) => {
            let mut lines = lines.clone();
            *lines.get_mut(i)? = fresh();
            Some(PState::File(lines))
        }
        (Ed::Same(i), PState::File(lines)) => {
            let mut lines = lines.clone();
            let new = format!("Z{i}\n");
            if *lines.get(i)? == new {
                return None;
            }
            lines[i] = new;
            Some(PState::File(lines))
        }
        (Ed::Ins(i), PState::File(lines)) => {
            if i > lines.len() || lines.len() >= MAX_LINES {
                return None;
            }
            let mut lines = lines.clone();
            lines.insert(i, fresh());
            Some(PState::File(lines))
        }
        (Ed::Del(i), PState::File(lines)) => {
            if i >= lines.len() {
                return None;
            }
            let mut lines = lines.clone();
            lines.remove(i);
            Some(PState::File(lines))
        }
    }
}

fn rp(p: &str) -> RepoPathBuf {
    RepoPathBuf::from_internal_string(p).unwrap()
}

fn read_state(tree: &MergedTree, path: &str) -> PState {
    let path = rp(path);
    let value = tree.path_value(&path).block_on().unwrap_or_else(|e| machinery_failure(&format!("path_value: {e}")));
    match value.as_resolved() {
        Some(None) => PState::Absent,
        Some(Some(TreeValue::File { id, .. })) => {
            let bytes = testutils::read_file(tree.store(), &path, id);
            let text = String::from_utf8(bytes).unwrap();
            PState::File(text.split_inclusive('\n').map(|l| l.to_string()).collect())
        }
        _ => PState::Other,
    }
}

fn sig(t: i64) -> Signature {
    Signature {
        name: "Verif".to_string(),
        email: "verif@example.com".to_string(),
        timestamp: Timestamp { timestamp: MillisSinceEpoch(1_000_000_000_000 + 1000 * t), tz_offset: 0 },
    }
}

fn change_id_of(label: usize) -> ChangeId {
    ChangeId::from_bytes(&[label as u8 + 1; 16])
}

/// Applies the edits of `spec` to `base`. Returns the tree and the final state of every edited
/// path, or `None` if an edit is not applicable.
fn apply_edits(
    mr: &MutableRepo,
    base: &MergedTree,
    spec: &CommitSpec,
    label: usize,
) -> Option<(MergedTree, Vec<(String, PState)>)> {
    let letter = (b'A' + label as u8) as char;
    let mut counter = 0;
    let mut fresh = || {
        counter += 1;
        format!("{letter}{counter}\n")
    };
    let mut states: Vec<(String, PState)> = vec![];
    for (path, edit) in &spec.edits {
        let cur = match states.iter().find(|(p, _)| p == path) {
            Some((_, s)) => s.clone(),
            None => read_state(base, path),
        };
        let next = apply_ed(&cur, parse_ed(edit), &mut fresh)?;
        match states.iter_mut().find(|(p, _)| p == path) {
            Some(e) => e.1 = next,
            None => states.push((path.clone(), next)),
        }
    }
    if states.is_empty() {
        return Some((base.clone(), states));
    }
    let mut builder = MergedTreeBuilder::new(base.clone());
    for (path, state) in &states {
        let path = rp(path);
        let value = match state {
            PState::Absent => Merge::absent(),
            PState::File(lines) => {
                let text = lines.concat();
                let id = mr
                    .store()
                    .write_file(&path, &mut text.as_bytes())
                    .block_on()
                    .unwrap_or_else(|e| machinery_failure(&format!("write_file: {e}")));
                Merge::normal(TreeValue::File { id, executable: false, copy_id: CopyId::placeholder() })
            }
            PState::Other => machinery_failure("edit produced a non-file state"),
        };
        builder.set_or_remove(path, value);
    }
    let tree = builder.write_tree().block_on().unwrap_or_else(|e| machinery_failure(&format!("write_tree: {e}")));
    Some((tree, states))
}

struct Built {
    commits: Vec<Commit>,
    /// final states of the paths edited by the working-copy commit (for the dirty cli mode)
    wc_disk: Vec<(String, PState)>,
}

/// Builds the stack in `mr`. `defer_wc_edits`: the working-copy commit is created without its
/// edits (they are written to disk afterwards). `None` = some edit is not applicable.
fn build_stack(mr: &mut MutableRepo, case: &Case, defer_wc_edits: bool) -> Option<Built> {
    let root_id = mr.store().root_commit_id().clone();
    let mut commits: Vec<Commit> = vec![];
    let mut wc_disk = vec![];
    for (label, spec) in case.commits.iter().enumerate() {
        if spec.parents.iter().any(|p| *p >= label) {
            machinery_failure("case: parents must be earlier labels");
        }
        let parent_commits: Vec<Commit> = spec.parents.iter().map(|p| commits[*p].clone()).collect();
        let parent_ids: Vec<CommitId> =
            if parent_commits.is_empty() { vec![root_id.clone()] } else { parent_commits.iter().map(|c| c.id().clone()).collect() };
        let base = if parent_commits.is_empty() {
            mr.store().root_commit().tree()
        } else {
            merge_commit_trees(&*mr, &parent_commits)
                .block_on()
                .unwrap_or_else(|e| machinery_failure(&format!("merge_commit_trees: {e}")))
        };
        let (tree, states) = apply_edits(mr, &base, spec, label)?;
        let tree = if defer_wc_edits && label == case.wc {
            wc_disk = states;
            base
        } else {
            tree
        };
        let commit = mr
            .new_commit(parent_ids, tree)
            .set_change_id(change_id_of(label))
            .set_description(if spec.nodesc { String::new() } else { format!("c{label}") })
            .set_author(sig(label as i64))
            .set_committer(sig(label as i64))
            .write()
            .block_on()
            .unwrap_or_else(|e| machinery_failure(&format!("cannot write commit: {e}")));
        commits.push(commit);
    }
    mr.set_wc_commit(WorkspaceName::DEFAULT.to_owned(), commits[case.wc].id().clone())
        .unwrap_or_else(|e| machinery_failure(&format!("set_wc_commit: {e}")));
    Some(Built { commits, wc_disk })
}

// ---------------------------------------------------------------------------------------
// Observation of a repository state
// ---------------------------------------------------------------------------------------

struct Obs {
    /// every visible commit except the root
    nodes: BTreeMap<CommitId, Commit>,
    wc: Option<Commit>,
}

impl Obs {
    fn take(repo: &dyn Repo) -> Obs {
        let store = repo.store();
        let root = store.root_commit_id().clone();
        let mut nodes = BTreeMap::new();
        let mut todo: Vec<CommitId> = repo.view().heads().iter().cloned().collect();
        while let Some(id) = todo.pop() {
            if id == root || nodes.contains_key(&id) {
                continue;
            }
            let commit = store.get_commit(&id).unwrap_or_else(|e| machinery_failure(&format!("get_commit: {e}")));
            todo.extend(commit.parent_ids().iter().cloned());
            nodes.insert(id, commit);
        }
        let wc = repo
            .view()
            .get_wc_commit_id(WorkspaceName::DEFAULT)
            .map(|id| store.get_commit(id).unwrap_or_else(|e| machinery_failure(&format!("get_commit: {e}"))));
        Obs { nodes, wc }
    }

    fn by_change(&self, change: &ChangeId) -> Vec<&Commit> {
        self.nodes.values().filter(|c| c.change_id() == change).collect()
    }

    /// proper ancestors (without the root)
    fn ancestors(&self, id: &CommitId) -> BTreeSet<CommitId> {
        let mut out = BTreeSet::new();
        let mut todo: Vec<CommitId> = self.nodes[id].parent_ids().to_vec();
        while let Some(p) = todo.pop() {
            if let Some(c) = self.nodes.get(&p)
                && out.insert(p)
            {
                todo.extend(c.parent_ids().iter().cloned());
            }
        }
        out
    }

    /// proper descendants
    fn descendants(&self, id: &CommitId) -> BTreeSet<CommitId> {
        let mut out: BTreeSet<CommitId> = BTreeSet::new();
        loop {
            let before = out.len();
            for (cid, c) in &self.nodes {
                if c.parent_ids().iter().any(|p| p == id || out.contains(p)) {
                    out.insert(cid.clone());
                }
            }
            if out.len() == before {
                return out;
            }
        }
    }

    /// id-free rendering (labels, parents' labels, tree ids, descriptions, wc). Commits created
    /// by jj itself (second half of a split, re-created working-copy commit) have random change
    /// ids; they are rendered as "new".
    fn key(&self) -> String {
        let label = |c: &Commit| -> String {
            let bytes = c.change_id().as_bytes();
            if bytes.len() == 16 && bytes.iter().all(|b| *b == bytes[0]) { format!("c{}", bytes[0] as i32 - 1) } else { "new".to_string() }
        };
        let mut rows: Vec<String> = self
            .nodes
            .values()
            .map(|c| {
                let mut ps: Vec<String> =
                    c.parent_ids().iter().map(|p| self.nodes.get(p).map(&label).unwrap_or_else(|| "root".into())).collect();
                ps.sort();
                format!("{}|{}|{:?}|{}", label(c), ps.join(","), c.tree_ids(), c.description().trim_end())
            })
            .collect();
        rows.sort();
        format!("{}#wc={}", rows.join(";"), self.wc.as_ref().map(&label).unwrap_or_default())
    }
}

// ---------------------------------------------------------------------------------------
// Tree comparison
// ---------------------------------------------------------------------------------------

fn term_key(t: &Option<TreeValue>) -> String {
    match t {
        None => "-".to_string(),
        Some(TreeValue::File { id, executable, .. }) => format!("F{}{}", id.hex(), if *executable { "x" } else { "" }),
        Some(other) => format!("{other:?}"),
    }
}

/// Denotation of a path value: trivially resolved value, else the signed multiset of terms.
fn canon(v: &MergedTreeValue) -> String {
    if let Some(r) = v.as_resolved() {
        return term_key(r);
    }
    let mut m: BTreeMap<String, i32> = BTreeMap::new();
    for (i, t) in v.iter().enumerate() {
        *m.entry(term_key(t)).or_insert(0) += if i % 2 == 0 { 1 } else { -1 };
    }
    m.retain(|_, c| *c != 0);
    format!("{m:?}")
}

fn content_map(tree: &MergedTree) -> BTreeMap<String, String> {
    tree.entries()
        .map(|(p, v)| {
            let v = v.unwrap_or_else(|e| machinery_failure(&format!("tree entry: {e}")));
            (p.as_internal_file_string().to_string(), canon(&v))
        })
        .collect()
}

enum TreeCmp {
    Same,
    /// different tree ids, same content at every path (modulo the denotation of conflicts)
    Representation,
    Content(String),
}

fn tree_cmp(old: &MergedTree, new: &MergedTree) -> TreeCmp {
    if old.tree_ids() == new.tree_ids() {
        return TreeCmp::Same;
    }
    let (a, b) = (content_map(old), content_map(new));
    if a == b {
        return TreeCmp::Representation;
    }
    let mut diffs = vec![];
    let paths: BTreeSet<&String> = a.keys().chain(b.keys()).collect();
    for p in paths {
        if a.get(p) != b.get(p) {
            diffs.push(format!("{p}: {} -> {}", a.get(p).map_or("absent", |s| s.as_str()), b.get(p).map_or("absent", |s| s.as_str())));
        }
    }
    TreeCmp::Content(diffs.join("; "))
}

fn dump(tree: &MergedTree) -> String {
    let mut out = String::new();
    for (p, v) in tree.entries() {
        let v = v.unwrap();
        let path = p.as_internal_file_string().to_string();
        if let Some(Some(TreeValue::File { id, .. })) = v.as_resolved() {
            let bytes = testutils::read_file(tree.store(), &p, id);
            out.push_str(&format!("{path}={:?} ", String::from_utf8_lossy(&bytes)));
        } else {
            let mut terms = vec![];
            for t in v.iter() {
                match t {
                    Some(TreeValue::File { id, .. }) => {
                        terms.push(format!("{:?}", String::from_utf8_lossy(&testutils::read_file(tree.store(), &p, id))));
                    }
                    other => terms.push(format!("{other:?}")),
                }
            }
            out.push_str(&format!("{path}=conflict[{}] ", terms.join(", ")));
        }
    }
    out
}

// ---------------------------------------------------------------------------------------
// Oracle
// ---------------------------------------------------------------------------------------

#[derive(Default)]
struct Tally {
    cases: Counter,
    invalid: Counter,
    transitions: Counter,
    per_op: Mutex<BTreeMap<String, [u64; 6]>>, // transitions, moved, with descendants, with joined descendants, wc above, nothing moved
    moved: Counter,
    nothing_moved: Counter,
    descendants_checked: Counter,
    joined_descendants_checked: Counter,
    descendant_parent_tree_changed: Counter,
    conflicted_descendants: Counter,
    conflicted_top: Counter,
    conflicted_receiver_after: Counter,
    between_rewritten: Counter,
    wc_is_source: Counter,
    wc_is_descendant: Counter,
    wc_below_or_aside: Counter,
    new_wc_commit_created: Counter,
    source_abandoned_in_absorb: Counter,
    absorb_receivers_1: Counter,
    absorb_receivers_2plus: Counter,
    absorb_source_emptied: Counter,
    absorb_source_is_merge: Counter,
    squash_dest_is_merge: Counter,
    split_proper: Counter,
    split_full: Counter,
    split_empty: Counter,
    split_non_legacy: Counter,
    unrelated_commits_checked: Counter,
    side_branches_rebased: Counter,
    representation_only_differences: Counter,
    op_errors: Counter,
    cli_refused: Counter,
    cli_snapshot_ops: Counter,
    op_error_samples: Mutex<BTreeMap<String, u64>>,
    states: Mutex<HashSet<u64>>,
    /// determinism gate: full rendering (with commit ids) of every state seen
    digests: Mutex<Option<Vec<String>>>,
}

impl Tally {
    fn per_op_add(&self, op: &str, idx: usize) {
        self.per_op.lock().unwrap().entry(op.to_string()).or_insert([0; 6])[idx] += 1;
    }
    fn note_error(&self, class: String) {
        *self.op_error_samples.lock().unwrap().entry(class).or_insert(0) += 1;
    }
    fn state(&self, key: &str) {
        self.states.lock().unwrap().insert(vcommon::fnv(key.as_bytes()));
    }
}

type Fail = (String, String);

struct Transition<'a> {
    engine: &'a str,
    op: &'a OpSpec,
    /// old commits by label (labels of the case; later-created commits have none)
    x: &'a Commit,
    /// absorb: old commits that may receive hunks
    candidates: Vec<CommitId>,
    before: &'a Obs,
    after: &'a Obs,
}

/// Evaluates clauses (a)-(c). Returns the violations found and whether the transition is
/// non-trivial (a change really moved down and something sits above the source).
fn oracle(t: &Transition, tally: &Tally) -> (Vec<Fail>, bool) {
    let mut fails: Vec<Fail> = vec![];
    let opn = t.op.name();
    let pre = format!("C09/{}/{}", t.engine, opn);
    let (before, after) = (t.before, t.after);
    let x = t.x;
    tally.transitions.inc();
    tally.per_op_add(opn, 0);
    tally.state(&before.key());
    tally.state(&after.key());
    if let Some(d) = tally.digests.lock().unwrap().as_mut() {
        for obs in [before, after] {
            // cli engine: ids are functions of the case (seed and clock are per command);
            // lib engine: jj draws change ids for the commits it creates from a generator that
            // lives as long as the worker's repository, so only the id-free key is compared.
            let ids: Vec<String> = if t.engine == "cli" { obs.nodes.keys().map(|id| id.hex()).collect() } else { vec![] };
            d.push(format!("{} ids={}", obs.key(), ids.join(",")));
        }
    }

    let anc_x = before.ancestors(x.id());
    let desc_x = before.descendants(x.id());
    let old_change_ids: BTreeSet<ChangeId> = before.nodes.values().map(|c| c.change_id().clone()).collect();
    let new_commits: Vec<&Commit> = after.nodes.values().filter(|c| !old_change_ids.contains(c.change_id())).collect();

    // Did anything move? (vacuity only)
    let mut receivers_changed = 0;
    for a in &anc_x {
        let old = &before.nodes[a];
        if let [new] = after.by_change(old.change_id())[..]
            && new.tree_ids() != old.tree_ids()
        {
            receivers_changed += 1;
            if new.has_conflict() {
                tally.conflicted_receiver_after.inc();
            }
        }
    }
    let unchanged = before.nodes.keys().eq(after.nodes.keys());
    let mut moved = receivers_changed > 0;

    // (a) the topmost resulting commit
    let mut top: Option<(&Commit, &str)> = None;
    match t.op {
        OpSpec::Squash { .. } => {
            let p = &before.nodes[&x.parent_ids()[0]];
            if p.parent_ids().len() > 1 {
                tally.squash_dest_is_merge.inc();
            }
            match after.by_change(p.change_id())[..] {
                [p2] => top = Some((p2, "rewritten-parent")),
                _ => fails.push((format!("{pre}/top-missing"), format!("the squash destination {} has no unique successor", p.change_id().hex()))),
            }
            moved = true;
        }
        OpSpec::Absorb { .. } => {
            if x.parent_ids().len() > 1 {
                tally.absorb_source_is_merge.inc();
            }
            match receivers_changed {
                0 => {}
                1 => tally.absorb_receivers_1.inc(),
                _ => tally.absorb_receivers_2plus.inc(),
            }
            match after.by_change(x.change_id())[..] {
                [x2] => {
                    top = Some((x2, "source"));
                    if !unchanged && x2.parent_ids().len() == 1 {
                        let p2 = after.nodes.get(&x2.parent_ids()[0]);
                        if p2.is_some_and(|p2| p2.tree_ids() == x2.tree_ids()) {
                            tally.absorb_source_emptied.inc();
                        }
                    }
                }
                [] => {
                    tally.source_abandoned_in_absorb.inc();
                    if let [pid] = x.parent_ids() {
                        let p = &before.nodes[pid];
                        match after.by_change(p.change_id())[..] {
                            [p2] => top = Some((p2, "parent-of-abandoned-source")),
                            _ => fails.push((format!("{pre}/top-missing"), "the parent of the abandoned source has no unique successor".to_string())),
                        }
                    }
                }
                _ => fails.push((format!("{pre}/top-missing"), "the source became divergent".to_string())),
            }
        }
        OpSpec::Split { legacy, .. } => {
            if !*legacy {
                tally.split_non_legacy.inc();
            }
            match after.by_change(x.change_id())[..] {
                [first] => {
                    let seconds: Vec<&&Commit> =
                        new_commits.iter().filter(|c| c.parent_ids() == [first.id().clone()]).collect();
                    match seconds[..] {
                        [second] => {
                            top = Some((second, "second-commit"));
                            let parent_tree_ids = if let [pid] = x.parent_ids() {
                                Some(match before.nodes.get(pid) {
                                    Some(p) => p.tree_ids().clone(),
                                    None => Merge::resolved(x.store().empty_tree_id().clone()),
                                })
                            } else {
                                None
                            };
                            if first.tree_ids() == x.tree_ids() {
                                tally.split_full.inc();
                            } else if parent_tree_ids.as_ref() == Some(first.tree_ids()) {
                                tally.split_empty.inc();
                            } else {
                                tally.split_proper.inc();
                                moved = true;
                            }
                        }
                        _ => fails.push((format!("{pre}/top-missing"), format!("{} new commits on top of the first commit", seconds.len()))),
                    }
                }
                _ => fails.push((format!("{pre}/top-missing"), "the split commit has no unique successor".to_string())),
            }
        }
    }
    if let Some((top, role)) = top {
        if x.has_conflict() {
            tally.conflicted_top.inc();
        }
        match tree_cmp(&x.tree(), &top.tree()) {
            TreeCmp::Same => {}
            TreeCmp::Representation => {
                tally.representation_only_differences.inc();
                fails.push((
                    format!("{pre}/top-tree/{role}/representation-differs"),
                    format!("source tree ids {:?}, topmost resulting commit has {:?} (same content)", x.tree_ids(), top.tree_ids()),
                ));
            }
            TreeCmp::Content(d) => fails.push((
                format!("{pre}/top-tree/{role}/content-differs"),
                format!("the topmost resulting commit ({role}) differs from the source's old tree: {d}; old [{}] new [{}]", dump(&x.tree()), dump(&top.tree())),
            )),
        }
    }

    // (b) descendants
    if !desc_x.is_empty() {
        tally.per_op_add(opn, 2);
    }
    let mut any_joined = false;
    for d in &desc_x {
        let old = &before.nodes[d];
        // does the descendant join a branch that is not comparable with the source?
        let joined = before.ancestors(d).iter().any(|a| a != x.id() && !anc_x.contains(a) && !desc_x.contains(a));
        let shape = if joined { "joins-side-branch" } else { "chain" };
        match after.by_change(old.change_id())[..] {
            [new] => {
                tally.descendants_checked.inc();
                if joined {
                    tally.joined_descendants_checked.inc();
                    any_joined = true;
                }
                if old.has_conflict() {
                    tally.conflicted_descendants.inc();
                }
                let old_parent_trees: Vec<_> = old.parent_ids().iter().map(|p| before.nodes.get(p).map(|c| c.tree_ids().clone())).collect();
                let new_parent_trees: Vec<_> = new.parent_ids().iter().map(|p| after.nodes.get(p).map(|c| c.tree_ids().clone())).collect();
                if old_parent_trees != new_parent_trees {
                    tally.descendant_parent_tree_changed.inc();
                }
                match tree_cmp(&old.tree(), &new.tree()) {
                    TreeCmp::Same => {}
                    TreeCmp::Representation => {
                        tally.representation_only_differences.inc();
                        fails.push((
                            format!("{pre}/descendant-tree/{shape}/representation-differs"),
                            format!("descendant {}: tree ids {:?} became {:?} (same content)", old.description().trim(), old.tree_ids(), new.tree_ids()),
                        ));
                    }
                    TreeCmp::Content(diff) => fails.push((
                        format!("{pre}/descendant-tree/{shape}/content-differs"),
                        format!("descendant {:?} changed: {diff}; old [{}] new [{}]", old.description().trim(), dump(&old.tree()), dump(&new.tree())),
                    )),
                }
            }
            ref other => fails.push((
                format!("{pre}/descendant-lost/{shape}"),
                format!("descendant {:?} has {} successors", old.description().trim(), other.len()),
            )),
        }
    }
    if any_joined {
        tally.per_op_add(opn, 3);
    }
    // the working-copy commit
    if let Some(old_wc) = &before.wc {
        let above = old_wc.id() == x.id() || desc_x.contains(old_wc.id());
        if old_wc.id() == x.id() {
            tally.wc_is_source.inc();
        } else if above {
            tally.wc_is_descendant.inc();
        } else {
            tally.wc_below_or_aside.inc();
        }
        if above {
            tally.per_op_add(opn, 4);
            match &after.wc {
                None => fails.push((format!("{pre}/wc-lost"), "no working-copy commit after the operation".to_string())),
                Some(new_wc) => {
                    if !old_change_ids.contains(new_wc.change_id()) && !matches!(t.op, OpSpec::Split { .. }) {
                        tally.new_wc_commit_created.inc();
                    }
                    match tree_cmp(&old_wc.tree(), &new_wc.tree()) {
                        TreeCmp::Same => {}
                        TreeCmp::Representation => {
                            tally.representation_only_differences.inc();
                            fails.push((
                                format!("{pre}/wc-tree/representation-differs"),
                                format!("working-copy tree ids {:?} became {:?} (same content)", old_wc.tree_ids(), new_wc.tree_ids()),
                            ));
                        }
                        TreeCmp::Content(diff) => fails.push((
                            format!("{pre}/wc-tree/content-differs"),
                            format!("the working-copy commit's tree changed: {diff}; old [{}] new [{}]", dump(&old_wc.tree()), dump(&new_wc.tree())),
                        )),
                    }
                }
            }
        }
    }

    // (c) commits outside the cone of the possible receivers keep their ids
    let roots: Vec<CommitId> = match t.op {
        OpSpec::Squash { .. } => vec![x.parent_ids()[0].clone()],
        OpSpec::Split { .. } => vec![x.id().clone()],
        OpSpec::Absorb { .. } => t.candidates.iter().filter(|c| anc_x.contains(*c)).cloned().collect(),
    };
    let mut cone: BTreeSet<CommitId> = BTreeSet::new();
    for r in &roots {
        cone.insert(r.clone());
        cone.extend(before.descendants(r));
    }
    for (id, c) in &before.nodes {
        if cone.contains(id) {
            if !anc_x.contains(id) && id != x.id() && !desc_x.contains(id) && !after.nodes.contains_key(id) {
                tally.side_branches_rebased.inc();
            }
            if anc_x.contains(id) && !roots.contains(id) && !after.nodes.contains_key(id) {
                tally.between_rewritten.inc();
            }
            continue;
        }
        tally.unrelated_commits_checked.inc();
        if !after.nodes.contains_key(id) {
            fails.push((
                format!("{pre}/unrelated-commit-rewritten"),
                format!("commit {:?} is not a descendant of any possible receiver but was rewritten or hidden", c.description().trim()),
            ));
        }
    }

    if moved {
        tally.moved.inc();
        tally.per_op_add(opn, 1);
    } else {
        tally.nothing_moved.inc();
        tally.per_op_add(opn, 5);
    }
    let nontrivial = moved && (!desc_x.is_empty() || before.wc.as_ref().is_some_and(|w| w.id() == x.id()));
    (fails, nontrivial)
}

// ---------------------------------------------------------------------------------------
// lib engine
// ---------------------------------------------------------------------------------------

struct LibWorld {
    _test_repo: TestRepo,
    repo: Arc<ReadonlyRepo>,
}

thread_local! {
    static LIB_WORLD: RefCell<Option<Rc<LibWorld>>> = const { RefCell::new(None) };
}

fn harness_settings() -> UserSettings {
    let mut config = testutils::base_user_config();
    config.add_layer(
        ConfigLayer::parse(
            ConfigSource::User,
            "debug.commit-timestamp = \"2001-02-03T04:05:06+07:00\"\ndebug.operation-timestamp = \"2001-02-03T04:05:06+07:00\"\n",
        )
        .unwrap(),
    );
    UserSettings::from_config(config).unwrap()
}

fn lib_world() -> Rc<LibWorld> {
    LIB_WORLD.with(|w| {
        w.borrow_mut()
            .get_or_insert_with(|| {
                let test_repo = TestRepo::init_with_settings(&harness_settings());
                let repo = test_repo.repo.clone();
                Rc::new(LibWorld { _test_repo: test_repo, repo })
            })
            .clone()
    })
}

/// Finds the current version of the commit created with label `l`.
fn current_by_label(obs: &Obs, l: usize) -> Option<Commit> {
    match obs.by_change(&change_id_of(l))[..] {
        [c] => Some(c.clone()),
        _ => None,
    }
}

enum Exec {
    Done,
    /// preconditions of the operation do not hold in this state
    NotEnabled,
    /// jj returned an error or panicked (not a verdict about this property)
    Error(String),
}

fn exec_lib_op(mr: &mut MutableRepo, op: &OpSpec, before: &Obs) -> (Exec, Vec<CommitId>) {
    let Some(x) = current_by_label(before, op.x()) else {
        return (Exec::NotEnabled, vec![]);
    };
    match op {
        OpSpec::Squash { .. } => {
            let [pid] = x.parent_ids() else { return (Exec::NotEnabled, vec![]) };
            let Some(p) = before.nodes.get(pid).cloned() else { return (Exec::NotEnabled, vec![]) };
            let r = catch(|| -> Result<(), String> {
                let parent_tree = x.parent_tree(&*mr).block_on().map_err(|e| format!("{e}"))?;
                let selection = CommitWithSelection { commit: x.clone(), selected_tree: x.tree(), parent_tree };
                let squashed = squash_commits(mr, &[selection], &p, false).block_on().map_err(|e| format!("{e}"))?;
                if let Some(squashed) = squashed {
                    squashed
                        .commit_builder
                        .set_description(p.description().to_owned())
                        .write()
                        .block_on()
                        .map_err(|e| format!("{e}"))?;
                }
                mr.rebase_descendants().block_on().map_err(|e| format!("{e}"))?;
                Ok(())
            });
            match r {
                Ok(Ok(())) => (Exec::Done, vec![]),
                Ok(Err(e)) => (Exec::Error(format!("squash error: {e}")), vec![]),
                Err(e) => (Exec::Error(format!("squash panic: {e}")), vec![]),
            }
        }
        OpSpec::Absorb { into, .. } => {
            let candidates: Vec<CommitId> = match into {
                None => before.nodes.keys().cloned().collect(),
                Some(labels) => {
                    let mut ids = vec![];
                    for l in labels {
                        match current_by_label(before, *l) {
                            Some(c) => ids.push(c.id().clone()),
                            None => return (Exec::NotEnabled, vec![]),
                        }
                    }
                    ids
                }
            };
            let destinations = match into {
                None => RevsetExpression::root().negated(),
                Some(_) => RevsetExpression::commits(candidates.clone()),
            };
            let r = catch(|| -> Result<(), String> {
                let source = AbsorbSource::from_commit(&*mr, x.clone()).block_on().map_err(|e| format!("{e}"))?;
                let selected = split_hunks_to_trees(&*mr, &source, &destinations, &EverythingMatcher)
                    .block_on()
                    .map_err(|e| format!("{e}"))?;
                absorb_hunks(mr, &source, selected.target_commits).block_on().map_err(|e| format!("{e}"))?;
                mr.rebase_descendants().block_on().map_err(|e| format!("{e}"))?;
                Ok(())
            });
            match r {
                Ok(Ok(())) => (Exec::Done, candidates),
                Ok(Err(e)) => (Exec::Error(format!("absorb error: {e}")), candidates),
                Err(e) => (Exec::Error(format!("absorb panic: {e}")), candidates),
            }
        }
        OpSpec::Split { .. } => machinery_failure("split is a CLI operation (cmd_split); use the cli engine"),
    }
}

fn error_class(msg: &str) -> String {
    let first = msg.lines().next().unwrap_or("");
    // mask hex ids
    let masked: String = first
        .split(' ')
        .map(|w| {
            let core = w.trim_matches(|c: char| !c.is_ascii_alphanumeric());
            if core.len() >= 8 && core.chars().all(|c| c.is_ascii_hexdigit() || ('k'..='z').contains(&c)) { "<id>" } else { w }
        })
        .collect::<Vec<_>>()
        .join(" ");
    masked.chars().take(160).collect()
}

/// Runs one lib case. Returns (valid, non-trivial).
fn run_lib_case(ctx: &Ctx, tally: &Tally, case: &Case) -> (bool, bool) {
    let world = lib_world();
    let mut tx = world.repo.start_transaction();
    let mr = tx.repo_mut();
    let Some(_built) = build_stack(mr, case, false) else {
        tally.invalid.inc();
        return (false, false);
    };
    let mut nontrivial = false;
    for (k, op) in case.ops.iter().enumerate() {
        let before = Obs::take(&*mr);
        let Some(x) = current_by_label(&before, op.x()) else {
            tally.invalid.inc();
            return (k > 0, nontrivial);
        };
        let (exec, candidates) = exec_lib_op(mr, op, &before);
        match exec {
            Exec::NotEnabled => {
                tally.invalid.inc();
                return (k > 0, nontrivial);
            }
            Exec::Error(e) => {
                tally.op_errors.inc();
                tally.note_error(error_class(&e));
                return (true, nontrivial);
            }
            Exec::Done => {}
        }
        let after = Obs::take(&*mr);
        let t = Transition { engine: "lib", op, x: &x, candidates, before: &before, after: &after };
        let (fails, nt) = oracle(&t, tally);
        nontrivial |= nt;
        for (sig, msg) in fails {
            let mut c = case.clone();
            c.ops.truncate(k + 1);
            ctx.violation(&sig, msg, serde_json::to_value(&c).unwrap());
        }
    }
    (true, nontrivial)
}

// ---------------------------------------------------------------------------------------
// cli engine
// ---------------------------------------------------------------------------------------

static CLI_SEQ: AtomicUsize = AtomicUsize::new(0);
static CLI_NANOS: [std::sync::atomic::AtomicU64; 4] = [const { std::sync::atomic::AtomicU64::new(0) }; 4];

fn phase(i: usize, t0: std::time::Instant) -> std::time::Instant {
    CLI_NANOS[i].fetch_add(t0.elapsed().as_nanos() as u64, Ordering::Relaxed);
    std::time::Instant::now()
}

fn jjv_bin() -> PathBuf {
    match std::env::var_os("JJV_BIN") {
        Some(p) if Path::new(&p).is_file() => PathBuf::from(p),
        _ => machinery_failure("JJV_BIN does not name the jj binary (run through ./check)"),
    }
}

struct CliRun {
    status: Option<i32>,
    stderr: String,
}

fn run_jj(jjv: &Path, env_root: &Path, ws_root: &Path, command_number: i64, args: &[String]) -> CliRun {
    let mut cmd = std::process::Command::new(jjv);
    cmd.current_dir(ws_root);
    cmd.env_clear();
    cmd.env("COLUMNS", "100");
    cmd.env("PATH", "/usr/bin:/bin");
    cmd.env("HOME", env_root.join("home"));
    cmd.env("TMPDIR", env_root.join("tmp"));
    cmd.env("GIT_CONFIG_SYSTEM", "/dev/null");
    cmd.env("GIT_CONFIG_GLOBAL", "/dev/null");
    cmd.env("JJ_CONFIG", env_root.join("config.toml"));
    cmd.env("JJ_USER", "Test User");
    cmd.env("JJ_EMAIL", "test.user@example.com");
    cmd.env("JJ_OP_HOSTNAME", "host.example.com");
    cmd.env("JJ_OP_USERNAME", "test-username");
    cmd.env("JJ_TZ_OFFSET_MINS", "660");
    cmd.env("RAYON_NUM_THREADS", "1");
    cmd.env("JJ_RANDOMNESS_SEED", command_number.to_string());
    // 2001-02-03T04:05:06+07:00 plus one second per command
    let secs = 981_147_906 + command_number;
    let ts = chrono::DateTime::from_timestamp(secs, 0).unwrap().to_rfc3339();
    cmd.env("JJ_TIMESTAMP", &ts);
    cmd.env("JJ_OP_TIMESTAMP", &ts);
    cmd.args(args);
    cmd.stdin(std::process::Stdio::null());
    let out = cmd.output().unwrap_or_else(|e| machinery_failure(&format!("cannot run {}: {e}", jjv.display())));
    CliRun { status: out.status.code(), stderr: String::from_utf8_lossy(&out.stderr).to_string() }
}

fn cli_args(op: &OpSpec, before_commits: &[Commit], wc: usize) -> Vec<String> {
    // Change ids survive the snapshot the command may take first (commit ids do not). When the
    // source is the working-copy commit the command's default (@) is used.
    let _ = before_commits;
    let hex = |l: usize| change_id_of(l).reverse_hex();
    let mut args: Vec<String> = vec![];
    match op {
        OpSpec::Squash { x } => {
            args.push("squash".into());
            if *x != wc {
                args.extend(["-r".into(), hex(*x)]);
            }
            args.push("-u".into());
        }
        OpSpec::Absorb { x, into } => {
            args.push("absorb".into());
            if *x != wc {
                args.extend(["--from".into(), hex(*x)]);
            }
            if let Some(labels) = into {
                for l in labels {
                    args.extend(["--into".into(), hex(*l)]);
                }
            }
        }
        OpSpec::Split { x, paths, legacy } => {
            if !*legacy {
                args.extend(["--config".into(), "split.legacy-bookmark-behavior=false".into()]);
            }
            args.push("split".into());
            if *x != wc {
                args.extend(["-r".into(), hex(*x)]);
            }
            args.extend(["-m".into(), "selected".into()]);
            for p in paths {
                args.push(format!("root-file:\"{p}\""));
            }
        }
    }
    args
}

/// Runs one cli case (exactly one operation). Returns (valid, non-trivial).
fn run_cli_case(ctx: &Ctx, tally: &Tally, case: &Case) -> (bool, bool) {
    let [op] = &case.ops[..] else { machinery_failure("cli cases have exactly one operation") };
    let jjv = jjv_bin();
    let env_root = ctx.scratch().join(format!("cli{}", CLI_SEQ.fetch_add(1, Ordering::Relaxed)));
    let ws_root = env_root.join("ws");
    for d in ["home", "tmp", "ws"] {
        std::fs::create_dir_all(env_root.join(d)).unwrap_or_else(|e| machinery_failure(&format!("cannot create scratch dir: {e}")));
    }
    std::fs::write(
        env_root.join("config.toml"),
        "[ui]\neditor = \"/bin/false\"\npaginate = \"never\"\ncolor = \"never\"\n[git]\ncolocate = false\n",
    )
    .unwrap();
    let cleanup = |valid, nt| {
        let _ = std::fs::remove_dir_all(&env_root);
        (valid, nt)
    };
    let settings = harness_settings();
    let t0 = std::time::Instant::now();
    let (mut workspace, repo) = Workspace::init_internal_git(&settings, &ws_root, gix::hash::Kind::default())
        .block_on()
        .unwrap_or_else(|e| machinery_failure(&format!("cannot init workspace: {e}")));
    let t0 = phase(0, t0);
    let mut tx = repo.start_transaction();
    let Some(built) = build_stack(tx.repo_mut(), case, case.dirty) else {
        tally.invalid.inc();
        return cleanup(false, false);
    };
    // hide the initial empty working-copy commit
    let initial_wc = repo.view().get_wc_commit_id(WorkspaceName::DEFAULT).cloned();
    if let Some(id) = initial_wc {
        let c = repo.store().get_commit(&id).unwrap();
        tx.repo_mut().record_abandoned_commit(&c);
        tx.repo_mut().rebase_descendants().block_on().unwrap();
        tx.repo_mut()
            .set_wc_commit(WorkspaceName::DEFAULT.to_owned(), built.commits[case.wc].id().clone())
            .unwrap();
    }
    let repo = tx.commit("setup").block_on().unwrap_or_else(|e| machinery_failure(&format!("cannot commit setup: {e}")));
    workspace
        .check_out(repo.op_id().clone(), None, &built.commits[case.wc])
        .block_on()
        .unwrap_or_else(|e| machinery_failure(&format!("cannot check out: {e}")));
    drop(workspace);
    let setup_op_id = repo.op_id().clone();
    for (path, state) in &built.wc_disk {
        let disk_path = ws_root.join(path);
        match state {
            PState::Absent => {
                let _ = std::fs::remove_file(&disk_path);
            }
            PState::File(lines) => {
                std::fs::create_dir_all(disk_path.parent().unwrap()).unwrap();
                std::fs::write(&disk_path, lines.concat()).unwrap();
            }
            PState::Other => machinery_failure("non-file state for the disk"),
        }
    }
    let args = cli_args(op, &built.commits, case.wc);
    let t0 = phase(1, t0);
    let run = run_jj(&jjv, &env_root, &ws_root, 1, &args);
    let t0 = phase(2, t0);
    if run.status != Some(0) {
        tally.cli_refused.inc();
        tally.note_error(format!("jj {} exit {:?}: {}", op.name(), run.status, error_class(&run.stderr)));
        return cleanup(true, false);
    }
    // Read the states before and after from the operation log.
    let loader = RepoLoader::init_from_file_system(&settings, &ws_root.join(".jj").join("repo"), &default_backend_factories())
        .unwrap_or_else(|e| machinery_failure(&format!("cannot load the repo: {e}")));
    let after_repo = loader.load_at_head().block_on().unwrap_or_else(|e| machinery_failure(&format!("cannot load at head: {e}")));
    let head_op = after_repo.operation().clone();
    let mut chain: Vec<jj_lib::operation::Operation> = vec![head_op.clone()];
    while chain.last().unwrap().id() != &setup_op_id {
        let parents = chain.last().unwrap().parents().block_on().unwrap();
        let [parent] = &parents[..] else { machinery_failure("operation log is not linear") };
        chain.push(parent.clone());
        if chain.len() > 4 {
            machinery_failure("unexpected operations after the setup operation");
        }
    }
    chain.reverse(); // setup, [snapshot], [command]
    let descr = |o: &jj_lib::operation::Operation| o.metadata().description.clone();
    let expected_prefix = match op {
        OpSpec::Squash { .. } => "squash commits into",
        OpSpec::Absorb { .. } => "absorb changes into",
        OpSpec::Split { .. } => "split commit",
    };
    let mut idx = 1;
    if chain.get(idx).is_some_and(|o| descr(o).starts_with("snapshot working copy")) {
        tally.cli_snapshot_ops.inc();
        idx += 1;
    }
    let before_op = chain[idx - 1].clone();
    match chain.get(idx) {
        None => {}
        Some(o) if descr(o).starts_with(expected_prefix) && idx + 1 == chain.len() => {}
        Some(o) => machinery_failure(&format!("unexpected operation {:?} after jj {}", descr(o), args.join(" "))),
    }
    if case.dirty && !built.wc_disk.is_empty() && idx == 1 {
        machinery_failure("the dirty working copy was not snapshotted");
    }
    let before_repo = loader.load_at(&before_op).block_on().unwrap_or_else(|e| machinery_failure(&format!("cannot load before-state: {e}")));
    let before = Obs::take(before_repo.as_ref());
    let after = Obs::take(after_repo.as_ref());
    let Some(x) = current_by_label(&before, op.x()) else { machinery_failure("source commit not found in the before-state") };
    let candidates: Vec<CommitId> = match op {
        OpSpec::Absorb { into: Some(labels), .. } => labels.iter().map(|l| current_by_label(&before, *l).unwrap().id().clone()).collect(),
        _ => before.nodes.keys().cloned().collect(),
    };
    let t = Transition { engine: "cli", op, x: &x, candidates, before: &before, after: &after };
    let (fails, nt) = oracle(&t, tally);
    phase(3, t0);
    for (sig, msg) in fails {
        ctx.violation(&sig, format!("jj {}: {msg}", args.join(" ")), serde_json::to_value(case).unwrap());
    }
    cleanup(true, nt)
}

fn run_case(ctx: &Ctx, tally: &Tally, case: &Case) -> (bool, bool) {
    tally.cases.inc();
    match case.engine.as_str() {
        "lib" => run_lib_case(ctx, tally, case),
        "cli" => run_cli_case(ctx, tally, case),
        other => machinery_failure(&format!("unknown engine {other}")),
    }
}

// ---------------------------------------------------------------------------------------
// Enumeration families
// ---------------------------------------------------------------------------------------

type Edits = Vec<(String, String)>;

fn edits(list: &[(&str, &str)]) -> Edits {
    list.iter().map(|(p, e)| ce(p, e)).collect()
}

/// Every non-empty subset of `items` (as index masks), smallest first.
fn nonempty_subsets<T: Clone>(items: &[T]) -> Vec<Vec<T>> {
    let mut out: Vec<Vec<T>> = (1u32..(1 << items.len()))
        .map(|m| items.iter().enumerate().filter(|(i, _)| m & (1 << i) != 0).map(|(_, t)| t.clone()).collect())
        .collect();
    out.sort_by_key(|s: &Vec<T>| s.len());
    out
}

/// proper ancestors of `x` in a spec list
fn spec_ancestors(commits: &[CommitSpec], x: usize) -> Vec<usize> {
    let mut out = BTreeSet::new();
    let mut todo = commits[x].parents.clone();
    while let Some(p) = todo.pop() {
        if out.insert(p) {
            todo.extend(commits[p].parents.iter().cloned());
        }
    }
    out.into_iter().collect()
}

/// The operations of the lib engine enabled on a stack: squash of every single-parent commit
/// with a non-root parent; absorb from every commit with at least one ancestor, into every
/// destination set of the given family.
fn lib_ops(commits: &[CommitSpec], all_subsets: bool) -> Vec<OpSpec> {
    let mut ops = vec![];
    for x in 0..commits.len() {
        if commits[x].parents.len() == 1 {
            ops.push(OpSpec::Squash { x });
        }
        let anc = spec_ancestors(commits, x);
        if anc.is_empty() {
            continue;
        }
        ops.push(OpSpec::Absorb { x, into: None });
        if anc.len() >= 2 {
            if all_subsets {
                for s in nonempty_subsets(&anc) {
                    if s.len() < anc.len() {
                        ops.push(OpSpec::Absorb { x, into: Some(s) });
                    }
                }
            } else {
                // each single ancestor and each complement of a single ancestor
                for a in &anc {
                    ops.push(OpSpec::Absorb { x, into: Some(vec![*a]) });
                }
                if anc.len() >= 3 {
                    for a in &anc {
                        ops.push(OpSpec::Absorb { x, into: Some(anc.iter().filter(|b| *b != a).cloned().collect()) });
                    }
                }
            }
        }
    }
    ops
}

struct Family {
    name: String,
    description: String,
    /// number of stacks
    size: u64,
    /// stack index -> the cases on that stack
    gen_cases: Box<dyn Fn(u64) -> Vec<Case> + Sync + Send>,
}

/// Line-level alphabet on one file.
fn line_alphabet(path: &str) -> Vec<Edits> {
    let mut out: Vec<Edits> = vec![];
    for e in ["mod0", "mod1", "mod2", "ins0", "ins1", "ins2", "ins3", "del0", "del1", "del2", "new", "rm"] {
        out.push(edits(&[(path, e)]));
    }
    for (a, b) in [("mod0", "mod1"), ("mod1", "mod2"), ("mod0", "mod2")] {
        out.push(edits(&[(path, a), (path, b)]));
    }
    out
}

/// F1: linear stacks over the line-level alphabet (`full`: all 18 edits; otherwise 10 of them).
fn family_linear(n: usize, all_subsets: bool, full: bool) -> Family {
    let mut alphabet = if full {
        line_alphabet("f")
    } else {
        vec![
            edits(&[("f", "mod0")]),
            edits(&[("f", "mod1")]),
            edits(&[("f", "mod2")]),
            edits(&[("f", "ins1")]),
            edits(&[("f", "del1")]),
            edits(&[("f", "new")]),
            edits(&[("f", "mod0"), ("f", "mod1")]),
        ]
    };
    alphabet.push(edits(&[("g", "new")]));
    alphabet.push(edits(&[("f", "mod1"), ("g", "mod0")]));
    alphabet.push(vec![]);
    let dims = vec![alphabet.len(); n - 1];
    let size = product(&dims);
    let description = format!(
        "linear stacks of {n} commits: c0 creates f and g (3 lines each), every later commit applies one of {} edits \
         ({}); the last commit is the \
         working-copy commit without description; operations: squash of every commit c1.. into its parent, absorb from every \
         commit c1.. into {}",
        alphabet.len(),
        alphabet.iter().map(|e| if e.is_empty() { "empty".to_string() } else { e.iter().map(|(p, x)| format!("{p}:{x}")).collect::<Vec<_>>().join("+") }).collect::<Vec<_>>().join(", "),
        if all_subsets { "every non-empty subset of its ancestors" } else { "all commits, each single ancestor, each complement of a single ancestor" }
    );
    Family {
        name: format!("lib-linear-{n}-{}", alphabet.len()),
        description,
        size,
        gen_cases: Box::new(move |idx| {
            let digits = decode(idx, &dims);
            let mut commits = vec![CommitSpec { parents: vec![], edits: edits(&[("f", "new"), ("g", "new")]), nodesc: false }];
            for (i, d) in digits.iter().enumerate() {
                commits.push(CommitSpec { parents: vec![i], edits: alphabet[*d].clone(), nodesc: i + 2 == n });
            }
            lib_ops(&commits, all_subsets)
                .into_iter()
                .map(|op| Case { engine: "lib".into(), commits: commits.clone(), wc: n - 1, ops: vec![op], dirty: false })
                .collect()
        }),
    }
}

/// All parent assignments for nodes 1..n over a fixed base node 0: every node has 1 or 2 parents
/// among the earlier nodes; at most `max_merges` nodes have 2 parents.
fn shapes(n: usize, max_merges: usize) -> Vec<Vec<Vec<usize>>> {
    let mut out: Vec<Vec<Vec<usize>>> = vec![vec![vec![]]];
    for i in 1..n {
        let mut options: Vec<Vec<usize>> = (0..i).map(|p| vec![p]).collect();
        for a in 0..i {
            for b in a + 1..i {
                options.push(vec![a, b]);
            }
        }
        let mut next = vec![];
        for s in &out {
            for o in &options {
                let merges = s.iter().filter(|p| p.len() > 1).count() + usize::from(o.len() > 1);
                if merges <= max_merges {
                    let mut s2 = s.clone();
                    s2.push(o.clone());
                    next.push(s2);
                }
            }
        }
        out = next;
    }
    out
}

/// F2: every graph shape over a small alphabet that produces conflicts, same changes and
/// adjacent-line changes.
fn family_shapes(n: usize, max_merges: usize, alphabet_name: &str) -> Family {
    let alphabet: Vec<Edits> = match alphabet_name {
        "small" => vec![
            edits(&[("f", "mod0")]),
            edits(&[("f", "mod1")]),
            edits(&[("f", "same0")]),
            edits(&[("g", "new")]),
            vec![],
        ],
        _ => vec![
            edits(&[("f", "mod0")]),
            edits(&[("f", "mod1")]),
            edits(&[("f", "same0")]),
            edits(&[("f", "new")]),
            edits(&[("f", "del1")]),
            edits(&[("g", "new")]),
            vec![],
        ],
    };
    let shapes = shapes(n, max_merges);
    let dims = vec![alphabet.len(); n - 1];
    let per_shape = product(&dims);
    let size = shapes.len() as u64 * per_shape;
    let description = format!(
        "every graph on a base commit c0 (creates f with 3 lines) plus {} commits with 1 or 2 parents among the earlier commits \
         (at most {max_merges} merge commits; {} shapes), every commit applies one of {} edits to its merged parents' tree \
         ({}); the last commit is the working-copy commit without description; operations: squash of every single-parent commit \
         into its parent, absorb from every commit into all commits, each single ancestor and each complement of one",
        n - 1,
        shapes.len(),
        alphabet.len(),
        alphabet.iter().map(|e| if e.is_empty() { "empty".to_string() } else { e.iter().map(|(p, x)| format!("{p}:{x}")).collect::<Vec<_>>().join("+") }).collect::<Vec<_>>().join(", "),
    );
    Family {
        name: format!("lib-shapes-{n}-{alphabet_name}"),
        description,
        size,
        gen_cases: Box::new(move |idx| {
            let shape = &shapes[(idx / per_shape) as usize];
            let digits = decode(idx % per_shape, &dims);
            let mut commits = vec![CommitSpec { parents: vec![], edits: edits(&[("f", "new")]), nodesc: false }];
            for i in 1..n {
                commits.push(CommitSpec { parents: shape[i].clone(), edits: alphabet[digits[i - 1]].clone(), nodesc: i + 1 == n });
            }
            lib_ops(&commits, false)
                .into_iter()
                .map(|op| Case { engine: "lib".into(), commits: commits.clone(), wc: n - 1, ops: vec![op], dirty: false })
                .collect()
        }),
    }
}

/// F3: two operations in a row on linear stacks (the second one starts from a state that
/// contains rewritten, possibly conflicted, commits).
fn family_sequences(n: usize) -> Family {
    let alphabet: Vec<Edits> = vec![
        edits(&[("f", "mod0")]),
        edits(&[("f", "mod1")]),
        edits(&[("f", "mod0"), ("f", "mod1")]),
        edits(&[("f", "ins1")]),
        edits(&[("f", "del1")]),
        edits(&[("g", "new")]),
    ];
    let dims = vec![alphabet.len(); n - 1];
    let size = product(&dims);
    let description = format!(
        "linear stacks of {n} commits over {} edits (f:mod0, f:mod1, f:mod0+mod1, f:ins1, f:del1, g:new); every ordered pair \
         of enabled operations (squash / absorb into all / absorb into one ancestor) applied one after the other, the oracle \
         evaluated on both transitions",
        alphabet.len()
    );
    Family {
        name: format!("lib-sequences-{n}"),
        description,
        size,
        gen_cases: Box::new(move |idx| {
            let digits = decode(idx, &dims);
            let mut commits = vec![CommitSpec { parents: vec![], edits: edits(&[("f", "new"), ("g", "new")]), nodesc: false }];
            for (i, d) in digits.iter().enumerate() {
                commits.push(CommitSpec { parents: vec![i], edits: alphabet[*d].clone(), nodesc: i + 2 == n });
            }
            let ops = lib_ops(&commits, false);
            let mut cases = vec![];
            for a in &ops {
                for b in &ops {
                    cases.push(Case { engine: "lib".into(), commits: commits.clone(), wc: n - 1, ops: vec![a.clone(), b.clone()], dirty: false });
                }
            }
            cases
        }),
    }
}

/// F4: the real command line.
fn family_cli(thorough: bool) -> Family {
    // (parents relative to the stack, edits) building blocks
    let base = CommitSpec { parents: vec![], edits: edits(&[("f", "new"), ("g", "new"), ("d/h", "new")]), nodesc: false };
    let middles: Vec<Edits> = if thorough {
        vec![edits(&[("f", "mod0")]), edits(&[("f", "mod1"), ("g", "mod0")])]
    } else {
        vec![edits(&[("f", "mod1"), ("g", "mod0")])]
    };
    let sources: Vec<Edits> = if thorough {
        vec![
            edits(&[("f", "mod0"), ("g", "mod0")]),
            edits(&[("f", "mod1"), ("g", "mod1"), ("d/h", "mod1")]),
            edits(&[("f", "mod0"), ("f", "mod1")]),
            edits(&[("f", "ins0"), ("d/h", "del0")]),
            edits(&[("g", "rm"), ("f", "mod2")]),
            edits(&[("k", "new"), ("f", "mod0")]),
        ]
    } else {
        vec![edits(&[("f", "mod0"), ("f", "mod1"), ("g", "mod0")]), edits(&[("k", "new"), ("g", "rm"), ("f", "mod0")])]
    };
    // what sits above the source: (extra commits as (parents relative: -1 = source, -2 = middle, k>=0 = earlier extra), edits)
    #[derive(Clone)]
    struct Above {
        name: &'static str,
        commits: Vec<(Vec<i32>, Edits)>,
    }
    let mut aboves = vec![
        Above { name: "source-is-wc", commits: vec![] },
        Above {
            name: "side-branch-merge",
            commits: vec![(vec![-2], edits(&[("g", "mod2")])), (vec![-1, 0], vec![]), (vec![1], edits(&[("d/h", "mod2")]))],
        },
    ];
    if thorough {
        aboves.push(Above { name: "child", commits: vec![(vec![-1], edits(&[("f", "mod2")]))] });
        aboves.push(Above { name: "child-and-grandchild", commits: vec![(vec![-1], edits(&[("g", "mod2")])), (vec![0], vec![])] });
        aboves.push(Above {
            name: "two-children",
            commits: vec![(vec![-1], edits(&[("f", "mod2")])), (vec![-1], edits(&[("f", "mod2")]))],
        });
        aboves.push(Above {
            name: "conflicting-side-branch-merge",
            commits: vec![(vec![-2], edits(&[("f", "mod0")])), (vec![-1, 0], vec![])],
        });
    }
    let dirties: Vec<bool> = vec![false, true];
    let dims = vec![middles.len(), sources.len(), aboves.len(), dirties.len()];
    let size = product(&dims);
    let description = format!(
        "real jj binary on a Git-backend workspace: c0 creates f, g, d/h (3 lines each); c1 one of {} edits; the source c2 one \
         of {} multi-path edits; above the source one of [{}]; the last commit is the working-copy commit (its edits either \
         committed or only on disk, so that the command snapshots them{}); operations: jj split -r c2 -m selected (under both values of split.legacy-bookmark-behavior) with {} \
         of the paths {{f, g, d/h, k}} the source touches, plus an untouched path, jj squash -r c2 -u, \
         jj absorb --from c2 with --into unset / c0 / c1{}, and the same three operations on the working-copy commit \
         (through the commands' default revision @)",
        middles.len(),
        sources.len(),
        aboves.iter().map(|a| a.name).collect::<Vec<_>>().join(", "),
        if thorough { "" } else { "; the on-disk variant only where the source is the working-copy commit" },
        if thorough { "every non-empty subset" } else { "every single path and the set of all" },
        if thorough { " / c0+c1" } else { "" },
    );
    Family {
        name: "cli".into(),
        description,
        size,
        gen_cases: Box::new(move |idx| {
            let d = decode(idx, &dims);
            let (middle, source, above, dirty) = (&middles[d[0]], &sources[d[1]], &aboves[d[2]], dirties[d[3]]);
            let mut commits = vec![base.clone()];
            commits.push(CommitSpec { parents: vec![0], edits: middle.clone(), nodesc: false });
            commits.push(CommitSpec { parents: vec![1], edits: source.clone(), nodesc: false });
            let first_extra = commits.len();
            for (parents, e) in &above.commits {
                let parents = parents
                    .iter()
                    .map(|p| match p {
                        -1 => 2,
                        -2 => 1,
                        k => first_extra + *k as usize,
                    })
                    .collect();
                commits.push(CommitSpec { parents, edits: e.clone(), nodesc: false });
            }
            let wc = commits.len() - 1;
            commits[wc].nodesc = true;
            if dirty && commits[wc].edits.is_empty() {
                return vec![]; // nothing to leave on disk: same as the clean variant
            }
            if dirty && !thorough && wc != 2 {
                return vec![]; // quick: the dirty variant only where the source is the working copy
            }
            let mut ops: Vec<OpSpec> = vec![];
            let mut touched: Vec<String> = vec![];
            for (p, _) in source {
                if !touched.contains(p) {
                    touched.push(p.clone());
                }
            }
            let untouched = ["f", "g", "d/h"].iter().find(|p| !touched.iter().any(|t| t == *p)).map(|p| p.to_string());
            for s in nonempty_subsets(&touched) {
                // quick: each single path and all of them
                if thorough || s.len() == 1 || s.len() == touched.len() {
                    for legacy in [true, false] {
                        ops.push(OpSpec::Split { x: 2, paths: s.clone(), legacy });
                    }
                }
            }
            if let Some(u) = untouched {
                ops.push(OpSpec::Split { x: 2, paths: vec![u.clone()], legacy: true });
                if thorough {
                    ops.push(OpSpec::Split { x: 2, paths: vec![touched[0].clone(), u], legacy: false });
                }
            }
            ops.push(OpSpec::Squash { x: 2 });
            let intos = if thorough { vec![None, Some(vec![0]), Some(vec![1]), Some(vec![0, 1])] } else { vec![None, Some(vec![0]), Some(vec![1])] };
            for into in intos {
                ops.push(OpSpec::Absorb { x: 2, into });
            }
            if wc != 2 {
                // the same operations on the working-copy commit (jj's defaults)
                if commits[wc].parents.len() == 1 {
                    ops.push(OpSpec::Squash { x: wc });
                }
                ops.push(OpSpec::Absorb { x: wc, into: None });
                let mut wc_paths: Vec<String> = vec![];
                for (p, _) in &commits[wc].edits {
                    if !wc_paths.contains(p) {
                        wc_paths.push(p.clone());
                    }
                }
                if !wc_paths.is_empty() {
                    for legacy in [true, false] {
                        ops.push(OpSpec::Split { x: wc, paths: wc_paths.clone(), legacy });
                    }
                }
            }
            ops.into_iter()
                .map(|op| Case { engine: "cli".into(), commits: commits.clone(), wc, ops: vec![op], dirty })
                .collect()
        }),
    }
}

// ---------------------------------------------------------------------------------------

fn main() {
    let ctx = Ctx::from_args("C09", Level::ModelChecking);
    vcommon::silence_panics();
    let tally = Tally::default();
    if let Some((_sig, case)) = ctx.replay_case() {
        let case: Case = serde_json::from_value(case).unwrap_or_else(|e| machinery_failure(&format!("bad replay case: {e}")));
        let (valid, _) = run_case(&ctx, &tally, &case);
        if !valid {
            machinery_failure("the replayed case is not executable");
        }
        ctx.finish(Coverage { evaluations: 1, ..Default::default() });
    }

    // Determinism gate: one trace of each engine twice; the observations (including the commit
    // ids, which never reach an oracle) must be identical.
    for gate_case in [
        Case {
            engine: "lib".into(),
            commits: vec![
                CommitSpec { parents: vec![], edits: edits(&[("f", "new")]), nodesc: false },
                CommitSpec { parents: vec![0], edits: edits(&[("f", "mod1")]), nodesc: false },
                CommitSpec { parents: vec![1], edits: edits(&[("f", "mod0"), ("f", "mod1")]), nodesc: false },
                CommitSpec { parents: vec![2], edits: edits(&[("f", "mod2")]), nodesc: true },
            ],
            wc: 3,
            ops: vec![OpSpec::Absorb { x: 2, into: None }, OpSpec::Squash { x: 3 }],
            dirty: false,
        },
        Case {
            engine: "cli".into(),
            commits: vec![
                CommitSpec { parents: vec![], edits: edits(&[("f", "new"), ("g", "new")]), nodesc: false },
                CommitSpec { parents: vec![0], edits: edits(&[("f", "mod1")]), nodesc: false },
                CommitSpec { parents: vec![1], edits: edits(&[("f", "mod0"), ("g", "mod1")]), nodesc: true },
            ],
            wc: 2,
            ops: vec![OpSpec::Split { x: 2, paths: vec!["g".into()], legacy: false }],
            dirty: true,
        },
    ] {
        let mut seen: Vec<Vec<String>> = vec![];
        for _ in 0..2 {
            let gate_tally = Tally::default();
            *gate_tally.digests.lock().unwrap() = Some(vec![]);
            let (valid, _) = run_case(&ctx, &gate_tally, &gate_case);
            let digest = gate_tally.digests.lock().unwrap().take().unwrap();
            if !valid || digest.is_empty() {
                machinery_failure("determinism gate: the gate case did not execute");
            }
            seen.push(digest);
        }
        if seen[0] != seen[1] {
            machinery_failure(&format!("determinism gate ({}): two runs of the same case differ:\n{:?}\n{:?}", gate_case.engine, seen[0], seen[1]));
        }
    }
    let mut families: Vec<Family> = vec![];
    if ctx.quick() {
        families.push(family_linear(4, true, true));
        families.push(family_shapes(4, 2, "rich"));
        families.push(family_sequences(3));
        families.push(family_cli(false));
    } else {
        families.push(family_linear(4, true, true));
        families.push(family_linear(5, false, false));
        families.push(family_shapes(4, 2, "rich"));
        families.push(family_shapes(5, 1, "small"));
        families.push(family_sequences(4));
        families.push(family_cli(true));
    }

    // development aid: C09_ONLY=<family name prefix> runs a part of the space (never exhaustive)
    let only = std::env::var("C09_ONLY").ok();
    if let Some(only) = &only {
        families.retain(|f| f.name.starts_with(only.as_str()));
    }
    let samples = Samples::new(8);
    let nontrivial = Counter::new();
    let evaluated = Counter::new();
    let mut family_rows: Vec<Value> = vec![];
    for fam in &families {
        let t0 = std::time::Instant::now();
        let (ev0, nt0, tr0) = (evaluated.get(), nontrivial.get(), tally.transitions.get());
        let run_one = |idx: u64, case: &Case| {
            let (valid, nt) = run_case(&ctx, &tally, case);
            if valid {
                evaluated.inc();
            }
            if nt {
                nontrivial.inc();
                if idx % 97 == 13 {
                    samples.offer(|| serde_json::to_value(case).unwrap());
                }
            }
        };
        if fam.size <= 4096 {
            // few stacks with many (or slow) cases each: shard over the cases
            let cases: Vec<(u64, Case)> =
                (0..fam.size).flat_map(|idx| (fam.gen_cases)(idx).into_iter().map(move |c| (idx * 97 + 13, c))).collect();
            cases.par_iter().for_each(|(idx, case)| run_one(*idx, case));
        } else {
            (0..fam.size).into_par_iter().for_each(|idx| {
                for case in (fam.gen_cases)(idx) {
                    run_one(idx, &case);
                }
            });
        }
        let row = json!({
            "family": fam.name,
            "space": fam.description,
            "stacks": fam.size,
            "cases_executed": evaluated.get() - ev0,
            "nontrivial": nontrivial.get() - nt0,
            "transitions": tally.transitions.get() - tr0,
            "wall_s": (t0.elapsed().as_secs_f64() * 10.0).round() / 10.0,
        });
        eprintln!("[C09] {}", row);
        family_rows.push(row);
    }

    let per_op: BTreeMap<String, Value> = tally
        .per_op
        .lock()
        .unwrap()
        .iter()
        .map(|(k, v)| {
            (
                k.clone(),
                json!({"transitions": v[0], "something_moved": v[1], "with_descendants": v[2], "with_descendant_joining_side_branch": v[3], "wc_at_or_above_source": v[4], "nothing_moved": v[5]}),
            )
        })
        .collect();
    // vacuity alarms
    if only.is_some() {
        eprintln!("[C09] partial run (C09_ONLY): {}", serde_json::to_string_pretty(&json!({"per_op": per_op, "errors": *tally.op_error_samples.lock().unwrap(), "cli_phase_s": CLI_NANOS.iter().map(|n| n.load(Ordering::Relaxed) as f64 / 1e9).collect::<Vec<_>>()})).unwrap());
        ctx.finish(Coverage { evaluations: evaluated.get(), distinct_nontrivial: nontrivial.get(), exhaustive: false, ..Default::default() });
    }
    for (op, v) in tally.per_op.lock().unwrap().iter() {
        if v[1] == 0 || v[2] == 0 || v[4] == 0 {
            machinery_failure(&format!("vacuous: operation {op} never moved anything / never had descendants / never had the working copy above ({v:?})"));
        }
    }
    for op in ["squash", "absorb", "split"] {
        if !tally.per_op.lock().unwrap().contains_key(op) {
            machinery_failure(&format!("vacuous: operation {op} was never executed"));
        }
    }
    if tally.joined_descendants_checked.get() == 0 || tally.conflicted_descendants.get() == 0 || tally.absorb_receivers_2plus.get() == 0 {
        machinery_failure("vacuous: no descendant joining a side branch / no conflicted descendant / no absorb into two commits");
    }
    let states = tally.states.lock().unwrap().len() as u64;
    let transitions = tally.transitions.get();
    let mut extra: BTreeMap<String, Value> = BTreeMap::new();
    extra.insert("families".into(), json!(family_rows));
    extra.insert("per_operation".into(), json!(per_op));
    extra.insert("cases_generated".into(), json!(tally.cases.get()));
    extra.insert("cases_not_executable".into(), json!(tally.invalid.get()));
    let counters: Vec<(&str, &Counter)> = vec![
        ("something_moved", &tally.moved),
        ("nothing_moved", &tally.nothing_moved),
        ("descendants_checked", &tally.descendants_checked),
        ("descendants_joining_a_side_branch_checked", &tally.joined_descendants_checked),
        ("descendants_whose_parents_trees_changed", &tally.descendant_parent_tree_changed),
        ("conflicted_descendants", &tally.conflicted_descendants),
        ("conflicted_source_trees", &tally.conflicted_top),
        ("receivers_conflicted_after", &tally.conflicted_receiver_after),
        ("between_commits_rewritten", &tally.between_rewritten),
        ("side_branch_commits_rebased", &tally.side_branches_rebased),
        ("wc_is_source", &tally.wc_is_source),
        ("wc_is_descendant", &tally.wc_is_descendant),
        ("wc_below_or_aside", &tally.wc_below_or_aside),
        ("new_wc_commit_created", &tally.new_wc_commit_created),
        ("absorb_source_abandoned", &tally.source_abandoned_in_absorb),
        ("absorb_source_emptied_but_kept", &tally.absorb_source_emptied),
        ("absorb_one_receiver", &tally.absorb_receivers_1),
        ("absorb_two_or_more_receivers", &tally.absorb_receivers_2plus),
        ("absorb_source_is_merge", &tally.absorb_source_is_merge),
        ("squash_destination_is_merge", &tally.squash_dest_is_merge),
        ("split_proper_selection", &tally.split_proper),
        ("split_full_selection", &tally.split_full),
        ("split_empty_selection", &tally.split_empty),
        ("split_with_legacy_bookmark_behavior_off", &tally.split_non_legacy),
        ("unrelated_commits_checked", &tally.unrelated_commits_checked),
        ("representation_only_differences", &tally.representation_only_differences),
        ("operations_failed_inside_jj", &tally.op_errors),
        ("cli_commands_refused", &tally.cli_refused),
        ("cli_commands_that_snapshotted_first", &tally.cli_snapshot_ops),
    ];
    extra.insert("vacuity".into(), json!(counters.iter().map(|(k, c)| (k.to_string(), c.get())).collect::<BTreeMap<_, _>>()));
    extra.insert(
        "cli_cpu_seconds_by_phase".into(),
        json!({
            "init_workspace": CLI_NANOS[0].load(Ordering::Relaxed) as f64 / 1e9,
            "build_commit_checkout": CLI_NANOS[1].load(Ordering::Relaxed) as f64 / 1e9,
            "jj_child_process": CLI_NANOS[2].load(Ordering::Relaxed) as f64 / 1e9,
            "load_and_oracle": CLI_NANOS[3].load(Ordering::Relaxed) as f64 / 1e9,
        }),
    );
    extra.insert("failed_or_refused_operations".into(), json!(*tally.op_error_samples.lock().unwrap()));
    let cov = Coverage {
        evaluations: evaluated.get(),
        distinct_nontrivial: nontrivial.get(),
        rule: "a case = (stack, working-copy commit, operation list), each generated once; non-trivial = on some transition a \
               change really moved (a receiver's tree changed / the commit was squashed / a proper part was split off) and \
               something sits above the source (a descendant, or the source is the working-copy commit)"
            .into(),
        samples: samples.take(),
        exhaustive: true,
        states: Some(states),
        transitions: Some(transitions),
        traces_validated_against_impl: Some(transitions),
        extra,
        assumptions: vec![
            "tree equality is equality of the tree ids (all terms of a conflicted tree); conflict labels are not part of the tree".into(),
            "an error or panic inside jj during an operation is counted (operations_failed_inside_jj), not judged".into(),
            "the side branches hanging off a receiver are rebased and get new trees; the statement's last sentence is read as a bound on which commits may be rewritten at all (clause c), not as a claim about those side branches".into(),
            "lib engine: TestBackend, one uncommitted transaction per case; cli engine: Git backend, real working copy".into(),
        ],
    };
    ctx.finish(cov);
}

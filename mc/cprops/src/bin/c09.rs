//! C09 — placeholder while the real check is being written (triggers the first jj-cli build).
fn main() {
    let jjv = std::env::var("JJV_BIN").unwrap_or_default();
    println!("jjv = {jjv}");
    let out = std::process::Command::new(&jjv).arg("--version").output();
    println!("{out:?}");
    std::process::exit(2);
}

//! C41 — Undo and restore return the repository to the earlier state.
//!
//! Explicit-state search over sequences of real `jj` commands (the binary built from /repo,
//! `$JJV_BIN`) in a scratch repository (git backend, one or two workspaces). A state is a
//! directory tree on tmpfs; a transition is "copy the parent's directory, optionally dirty the
//! working copies, run one `jj` command". The alphabet mixes ordinary commands (new, describe,
//! commit, squash, abandon, edit, bookmark set/delete, tag set) with `undo`, `redo`,
//! `op restore @-…` and `op revert @…`, so undo/redo/restore are applied at every reachable
//! state, after each other, and with a dirty working copy (the command then first snapshots).
//!
//! Oracle, on every successful undo-family transition, through jj-lib (read-only): the view of
//! the command's own operation (visible heads, local bookmarks, local tags, remote views,
//! working-copy commit ids) must equal the view of the operation named by an independent
//! text-editor model of undo/redo kept by the harness:
//!   * ordinary operations (including the command's own snapshot of a dirty working copy) are
//!     pushed on `done` and clear `undone`;
//!   * `undo` pops t from `done`, the new view must equal the view of t's parent operation
//!     ("equal to those before it"), t goes to `undone`;
//!   * `redo` pops r from `undone`, the new view must equal r's view ("reinstates the undone
//!     state"); a redo that succeeds with nothing undone is a violation;
//!   * `op restore X`: the new view must equal X's view;
//!   * `op revert X` is judged only where the statement determines the result: when the view did
//!     not change since X (always the case for X = `@`) it must equal the view of X's parent.
//! The one permitted difference: an empty, description-less, unreferenced head on top of an
//! immutable commit as working-copy commit of the acting workspace is identified with that
//! immutable commit (both views are normalised the same way; counted in the evidence).

#![allow(dead_code)]

use std::collections::BTreeMap;
use std::collections::BTreeSet;
use std::collections::HashMap;
use std::path::Path;
use std::path::PathBuf;
use std::process::Command;
use std::process::Stdio;
use std::sync::Arc;
use std::sync::Mutex;
use std::sync::atomic::AtomicBool;
use std::sync::atomic::AtomicU64;
use std::sync::atomic::Ordering;
use std::time::Duration;
use std::time::Instant;

use jj_lib::backend::CommitId;
use jj_lib::backend::TreeId;
use jj_lib::backend::TreeValue;
use jj_lib::config::ConfigLayer;
use jj_lib::config::ConfigSource;
use jj_lib::config::StackedConfig;
use jj_lib::merge::Merge;
use jj_lib::object_id::ObjectId as _;
use jj_lib::op_store::OperationId;
use jj_lib::op_store::RefTarget;
use jj_lib::op_store::View;
use jj_lib::repo::RepoLoader;
use jj_lib::settings::UserSettings;
use jj_lib::workspace::Workspace;
use pollster::FutureExt as _;
use serde::Deserialize;
use serde::Serialize;
use serde_json::Value;
use serde_json::json;
use vcommon::Coverage;
use vcommon::Ctx;
use vcommon::Level;
use vcommon::bfs;

// ---------------------------------------------------------------------------------------------
// hermetic environment for child `jj` processes
// ---------------------------------------------------------------------------------------------

struct Env {
    root: PathBuf,
    jjv: PathBuf,
}

fn ts(step: u32) -> String {
    format!("2001-02-03T04:{:02}:{:02}+07:00", step / 60, step % 60)
}

const CONFIGS: [&str; 2] = [
    "[ui]\ncolor = \"never\"\npaginate = \"never\"\neditor = \"true\"\n[snapshot]\nauto-update-stale = false\n",
    "[ui]\ncolor = \"never\"\npaginate = \"never\"\neditor = \"true\"\n[snapshot]\nauto-update-stale = true\n",
];

static OUT_COUNTER: AtomicU64 = AtomicU64::new(0);

struct RunOut {
    code: Option<i32>,
    stderr: String,
}

impl Env {
    fn new(root: &Path, jjv: PathBuf) -> Env {
        std::fs::create_dir_all(root.join("home")).unwrap();
        std::fs::create_dir_all(root.join("tmp")).unwrap();
        std::fs::create_dir_all(root.join("out")).unwrap();
        std::fs::create_dir_all(root.join("st")).unwrap();
        for (i, c) in CONFIGS.iter().enumerate() {
            std::fs::write(root.join(format!("config{i}.toml")), c).unwrap();
        }
        Env { root: root.to_path_buf(), jjv }
    }

    /// Runs one `jj` command to completion (stdout/stderr to files, 300 s watchdog).
    fn run(&self, cwd: &Path, step: u32, config: usize, args: &[String]) -> RunOut {
        let n = OUT_COUNTER.fetch_add(1, Ordering::Relaxed);
        let out_path = self.root.join(format!("out/o{n}"));
        let err_path = self.root.join(format!("out/e{n}"));
        let mut c = Command::new(&self.jjv);
        c.current_dir(cwd);
        c.env_clear();
        c.env("PATH", "/usr/bin:/bin");
        c.env("HOME", self.root.join("home"));
        c.env("JJ_CONFIG", self.root.join(format!("config{config}.toml")));
        c.env("JJ_USER", "Test User");
        c.env("JJ_EMAIL", "test.user@example.com");
        c.env("JJ_OP_HOSTNAME", "host.example.com");
        c.env("JJ_OP_USERNAME", "test-username");
        c.env("JJ_TZ_OFFSET_MINS", "420");
        c.env("JJ_TIMESTAMP", ts(step));
        c.env("JJ_OP_TIMESTAMP", ts(step));
        c.env("JJ_RANDOMNESS_SEED", step.to_string());
        c.env("RAYON_NUM_THREADS", "1");
        c.env("GIT_CONFIG_GLOBAL", "/dev/null");
        c.env("GIT_CONFIG_SYSTEM", "/dev/null");
        c.env("TMPDIR", self.root.join("tmp"));
        c.env("TZ", "UTC");
        c.args(args);
        c.stdin(Stdio::null());
        c.stdout(std::fs::File::create(&out_path).unwrap());
        c.stderr(std::fs::File::create(&err_path).unwrap());
        let mut child = c
            .spawn()
            .unwrap_or_else(|e| vcommon::machinery_failure(&format!("cannot run jj: {e}")));
        let start = Instant::now();
        let status = loop {
            match child.try_wait() {
                Ok(Some(s)) => break s,
                Ok(None) => {
                    if start.elapsed() > Duration::from_secs(300) {
                        let _ = child.kill();
                        vcommon::machinery_failure(&format!("jj {args:?} did not finish within 300 s"));
                    }
                    std::thread::sleep(Duration::from_millis(4));
                }
                Err(e) => vcommon::machinery_failure(&format!("wait for jj failed: {e}")),
            }
        };
        let stderr = String::from_utf8_lossy(&std::fs::read(&err_path).unwrap_or_default()).to_string();
        let _ = std::fs::remove_file(&out_path);
        let _ = std::fs::remove_file(&err_path);
        RunOut { code: status.code(), stderr }
    }
}

fn copy_tree(src: &Path, dst: &Path) {
    std::fs::create_dir_all(dst).unwrap();
    for e in std::fs::read_dir(src).unwrap() {
        let e = e.unwrap();
        let ft = e.file_type().unwrap();
        let d = dst.join(e.file_name());
        if ft.is_dir() {
            copy_tree(&e.path(), &d);
        } else if ft.is_symlink() {
            let t = std::fs::read_link(e.path()).unwrap();
            std::os::unix::fs::symlink(t, &d).unwrap();
        } else {
            std::fs::copy(e.path(), &d).unwrap();
            // keep the mtime: the working copy compares it with its recorded state
            let m = e.metadata().unwrap().modified().unwrap();
            if let Ok(f) = std::fs::File::options().write(true).open(&d) {
                let _ = f.set_modified(m);
            }
        }
    }
}

/// (relative path, content) of every regular file of a working copy, `.jj` excluded.
fn disk_files(ws: &Path) -> BTreeMap<String, Vec<u8>> {
    fn rec(base: &Path, dir: &Path, out: &mut BTreeMap<String, Vec<u8>>) {
        let Ok(rd) = std::fs::read_dir(dir) else { return };
        for e in rd.flatten() {
            let p = e.path();
            let name = e.file_name().to_string_lossy().to_string();
            if dir == base && name == ".jj" {
                continue;
            }
            let ft = e.file_type().unwrap();
            if ft.is_dir() {
                rec(base, &p, out);
            } else if ft.is_file()
                && let Ok(bytes) = std::fs::read(&p)
            {
                out.insert(p.strip_prefix(base).unwrap().to_string_lossy().to_string(), bytes);
            }
        }
    }
    let mut out = BTreeMap::new();
    rec(ws, ws, &mut out);
    out
}

fn lib_settings() -> UserSettings {
    static CACHE: Mutex<Option<StackedConfig>> = Mutex::new(None);
    let config = CACHE
        .lock()
        .unwrap()
        .get_or_insert_with(|| {
            let mut config = StackedConfig::with_defaults();
            let text = "user.name = \"Inspector\"\nuser.email = \"inspector@example.com\"\n\
                        operation.username = \"inspector\"\noperation.hostname = \"inspector\"\n";
            config.add_layer(ConfigLayer::parse(ConfigSource::User, text).unwrap());
            config
        })
        .clone();
    UserSettings::from_config(config).unwrap()
}

fn err_chain(e: &dyn std::error::Error) -> String {
    let mut s = e.to_string();
    let mut cur = e.source();
    while let Some(c) = cur {
        s.push_str(": ");
        s.push_str(&c.to_string());
        cur = c.source();
    }
    s
}

// ---------------------------------------------------------------------------------------------
// read-only inspection through jj-lib
// ---------------------------------------------------------------------------------------------

struct CommitData {
    parents: Vec<CommitId>,
    desc: String,
    tree_ids: Merge<TreeId>,
    /// path -> contents of every term of the (possibly conflicted) value
    files: BTreeMap<String, Vec<Vec<u8>>>,
}

struct OpData {
    parents: Vec<OperationId>,
    desc: String,
    view: View,
}

#[derive(Default)]
struct Inspect {
    heads: Vec<OperationId>,
    ops: BTreeMap<OperationId, OpData>,
    commits: BTreeMap<CommitId, CommitData>,
    problems: Vec<String>,
}

fn inspect(repo_dir: &Path) -> Inspect {
    let mut ins = Inspect::default();
    let settings = lib_settings();
    let factories = jj_lib::default_backend_factories::default_backend_factories();
    let loader = match vcommon::catch(|| RepoLoader::init_from_file_system(&settings, repo_dir, &factories)) {
        Ok(Ok(l)) => l,
        Ok(Err(e)) => {
            ins.problems.push(format!("repo does not open: {}", err_chain(&e)));
            return ins;
        }
        Err(p) => {
            ins.problems.push(format!("repo open panicked: {p}"));
            return ins;
        }
    };
    match loader.op_heads_store().get_op_heads().block_on() {
        Ok(mut h) => {
            h.sort();
            ins.heads = h;
        }
        Err(e) => {
            ins.problems.push(format!("op heads unreadable: {}", err_chain(&e)));
            return ins;
        }
    }
    let mut stack: Vec<OperationId> = ins.heads.clone();
    let mut to_visit: Vec<CommitId> = vec![];
    while let Some(id) = stack.pop() {
        if ins.ops.contains_key(&id) {
            continue;
        }
        let op = match loader.op_store().read_operation(&id).block_on() {
            Ok(op) => op,
            Err(e) => {
                ins.problems.push(format!("operation {} unreadable: {}", &id.hex()[..12], err_chain(&e)));
                continue;
            }
        };
        let view = match loader.op_store().read_view(&op.view_id).block_on() {
            Ok(v) => v,
            Err(e) => {
                ins.problems.push(format!("view of operation {} unreadable: {}", &id.hex()[..12], err_chain(&e)));
                continue;
            }
        };
        stack.extend(op.parents.iter().cloned());
        to_visit.extend(view.head_ids.iter().cloned());
        to_visit.extend(view.wc_commit_ids.values().cloned());
        ins.ops.insert(
            id,
            OpData { parents: op.parents.clone(), desc: op.metadata.description.clone(), view },
        );
    }
    let store = loader.store().clone();
    while let Some(cid) = to_visit.pop() {
        if ins.commits.contains_key(&cid) {
            continue;
        }
        let commit = match vcommon::catch(|| store.get_commit(&cid)) {
            Ok(Ok(c)) => c,
            Ok(Err(e)) => {
                ins.problems.push(format!("commit {} unreadable: {}", &cid.hex()[..12], err_chain(&e)));
                continue;
            }
            Err(p) => {
                ins.problems.push(format!("commit read panicked: {p}"));
                continue;
            }
        };
        to_visit.extend(commit.parent_ids().iter().cloned());
        let mut files: BTreeMap<String, Vec<Vec<u8>>> = BTreeMap::new();
        let tree = commit.tree();
        for (path, value) in tree.entries() {
            let value = match value {
                Ok(v) => v,
                Err(e) => {
                    ins.problems.push(format!("tree of {} unreadable at {path:?}: {}", &cid.hex()[..12], err_chain(&e)));
                    continue;
                }
            };
            let mut terms = vec![];
            for term in value.iter().flatten() {
                if let TreeValue::File { id, .. } = term {
                    let r = vcommon::catch(|| {
                        let mut reader = store.read_file(&path, id).block_on()?;
                        let mut buf = vec![];
                        futures::AsyncReadExt::read_to_end(&mut reader, &mut buf)
                            .block_on()
                            .map_err(|e| jj_lib::backend::BackendError::Other(e.into()))?;
                        Ok::<_, jj_lib::backend::BackendError>(buf)
                    });
                    match r {
                        Ok(Ok(buf)) => terms.push(buf),
                        Ok(Err(e)) => ins.problems.push(format!("file {path:?} unreadable: {}", err_chain(&e))),
                        Err(p) => ins.problems.push(format!("file read panicked: {p}")),
                    }
                }
            }
            terms.sort();
            files.insert(path.as_internal_file_string().to_string(), terms);
        }
        ins.commits.insert(
            cid,
            CommitData {
                parents: commit.parent_ids().to_vec(),
                desc: commit.description().to_string(),
                tree_ids: commit.tree_ids().clone(),
                files,
            },
        );
    }
    ins
}

impl Inspect {
    /// (path, content) of every file term in the working-copy commit of any workspace of any
    /// operation reachable from the heads.
    fn recorded(&self) -> BTreeSet<(String, Vec<u8>)> {
        let mut out = BTreeSet::new();
        let mut done: BTreeSet<&CommitId> = BTreeSet::new();
        for op in self.ops.values() {
            for cid in op.view.wc_commit_ids.values() {
                if !done.insert(cid) {
                    continue;
                }
                if let Some(c) = self.commits.get(cid) {
                    for (p, terms) in &c.files {
                        for t in terms {
                            out.insert((p.clone(), t.clone()));
                        }
                    }
                }
            }
        }
        out
    }

    fn commit_hash(&self, id: &CommitId, memo: &mut HashMap<CommitId, u64>) -> u64 {
        if let Some(h) = memo.get(id) {
            return *h;
        }
        let h = match self.commits.get(id) {
            None => vcommon::fnv(b"missing"),
            Some(c) => {
                let mut buf: Vec<u8> = vec![];
                buf.extend(c.desc.as_bytes());
                buf.push(0);
                for (p, terms) in &c.files {
                    buf.extend(p.as_bytes());
                    buf.push(1);
                    for t in terms {
                        buf.extend(t);
                        buf.push(2);
                    }
                }
                for p in &c.parents {
                    buf.extend(self.commit_hash(p, memo).to_le_bytes());
                }
                vcommon::fnv(&buf)
            }
        };
        memo.insert(id.clone(), h);
        h
    }

    fn target_hash(&self, t: &RefTarget, memo: &mut HashMap<CommitId, u64>) -> String {
        let adds: Vec<String> = t.added_ids().map(|id| format!("{:x}", self.commit_hash(id, memo))).collect();
        let rems: Vec<String> = t.removed_ids().map(|id| format!("{:x}", self.commit_hash(id, memo))).collect();
        format!("+{}-{}", adds.join(","), rems.join(","))
    }

    fn view_hash(&self, v: &View, memo: &mut HashMap<CommitId, u64>) -> u64 {
        let mut heads: Vec<u64> = v.head_ids.iter().map(|h| self.commit_hash(h, memo)).collect();
        heads.sort();
        let mut s = format!("H{heads:x?}");
        for (n, t) in &v.local_bookmarks {
            s.push_str(&format!("|b:{}={}", n.as_str(), self.target_hash(t, memo)));
        }
        for (n, t) in &v.local_tags {
            s.push_str(&format!("|t:{}={}", n.as_str(), self.target_hash(t, memo)));
        }
        for (w, c) in &v.wc_commit_ids {
            s.push_str(&format!("|w:{}={:x}", w.as_str(), self.commit_hash(c, memo)));
        }
        vcommon::fnv(s.as_bytes())
    }

    fn op_hash(&self, id: &OperationId, cmemo: &mut HashMap<CommitId, u64>, omemo: &mut HashMap<OperationId, u64>) -> u64 {
        if let Some(h) = omemo.get(id) {
            return *h;
        }
        let h = match self.ops.get(id) {
            None => vcommon::fnv(b"missing-op"),
            Some(op) => {
                let mut ps: Vec<u64> = op.parents.iter().map(|p| self.op_hash(p, cmemo, omemo)).collect();
                ps.sort();
                let s = format!("{}|{:x}|{ps:x?}", mask_ids(&op.desc), self.view_hash(&op.view, cmemo));
                vcommon::fnv(s.as_bytes())
            }
        };
        omemo.insert(id.clone(), h);
        h
    }
}

/// Replaces runs of >= 12 hex digits (commit / operation ids in operation descriptions) by `#`.
fn mask_ids(s: &str) -> String {
    let mut out = String::new();
    let mut run = String::new();
    for ch in s.chars() {
        if ch.is_ascii_hexdigit() {
            run.push(ch);
        } else {
            if run.len() >= 12 {
                out.push('#');
            } else {
                out.push_str(&run);
            }
            run.clear();
            out.push(ch);
        }
    }
    if run.len() >= 12 {
        out.push('#');
    } else {
        out.push_str(&run);
    }
    out
}

/// State of one workspace relative to the repo: "fresh" (working copy is at the head
/// operation or its recorded tree equals the tree of the commit the view wants), "stale",
/// "forgotten" (no working-copy commit in the head view), "divergent-heads", "unknown".
fn workspace_state(ws_dir: &Path, ins: &Inspect) -> (String, Option<OperationId>) {
    let settings = lib_settings();
    let ws = match vcommon::catch(|| {
        Workspace::load(
            &settings,
            ws_dir,
            &jj_lib::default_backend_factories::default_backend_factories(),
            &jj_lib::default_backend_factories::default_working_copy_factories(),
        )
    }) {
        Ok(Ok(ws)) => ws,
        _ => return ("unknown".into(), None),
    };
    let wc_op = ws.working_copy().operation_id().clone();
    if ins.heads.len() != 1 {
        return ("divergent-heads".into(), Some(wc_op));
    }
    let head = &ins.heads[0];
    let Some(op) = ins.ops.get(head) else { return ("unknown".into(), Some(wc_op)) };
    let Some(want) = op.view.wc_commit_ids.get(ws.workspace_name()) else {
        return ("forgotten".into(), Some(wc_op));
    };
    let tree_same = match (ws.working_copy().tree(), ins.commits.get(want)) {
        (Ok(t), Some(c)) => *t.tree_ids() == c.tree_ids,
        _ => false,
    };
    let st = if tree_same {
        "fresh"
    } else if wc_op == *head {
        "fresh-op-tree-differs"
    } else {
        "stale"
    };
    (st.into(), Some(wc_op))
}


// ---------------------------------------------------------------------------------------------
// actions
// ---------------------------------------------------------------------------------------------

#[derive(Clone, Copy, Debug, PartialEq, Eq, Hash, Serialize, Deserialize)]
enum Cmd {
    New,
    Describe,
    Commit,
    Squash,
    Abandon,
    EditPrev,
    BookmarkSet,
    BookmarkDelete,
    TagSet,
    /// tag the other workspace's working-copy commit (makes it immutable)
    XTag,
    Undo,
    Redo,
    OpRestore(u8),
    OpRevert(u8),
}

impl Cmd {
    fn undo_family(self) -> bool {
        matches!(self, Cmd::Undo | Cmd::Redo | Cmd::OpRestore(_) | Cmd::OpRevert(_))
    }
}

const BASE: [Cmd; 9] = [
    Cmd::New,
    Cmd::Describe,
    Cmd::Commit,
    Cmd::Squash,
    Cmd::Abandon,
    Cmd::EditPrev,
    Cmd::BookmarkSet,
    Cmd::BookmarkDelete,
    Cmd::TagSet,
];
const UNDO_CORE: [Cmd; 6] =
    [Cmd::Undo, Cmd::Redo, Cmd::OpRestore(1), Cmd::OpRestore(3), Cmd::OpRevert(0), Cmd::OpRevert(1)];
const UNDO_FULL: [Cmd; 8] = [
    Cmd::Undo,
    Cmd::Redo,
    Cmd::OpRestore(1),
    Cmd::OpRestore(2),
    Cmd::OpRestore(3),
    Cmd::OpRevert(0),
    Cmd::OpRevert(1),
    Cmd::OpRevert(2),
];

#[derive(Clone, Debug, PartialEq, Eq, Hash)]
enum Act {
    Init(usize),
    Step { dirty: u8, ws: u8, cmd: Cmd },
}

const WS_DIR: [&str; 2] = ["d", "s"];
const WS_NAME: [&str; 2] = ["default", "s"];

#[derive(Clone, Debug, Serialize, Deserialize)]
struct LitEdit {
    ws: String,
    path: String,
    content: Option<String>,
}

/// A literal, self-contained step: edits, then one jj command.
#[derive(Clone, Debug, Serialize, Deserialize)]
struct LitStep {
    n: u32,
    cwd: String,
    edits: Vec<LitEdit>,
    args: Vec<String>,
    /// what the oracle has to judge: "undo", "redo", "op-restore:<k>", "op-revert:<k>", or "" (nothing)
    judge: String,
    class: String,
}

fn s(v: &[&str]) -> Vec<String> {
    v.iter().map(|x| x.to_string()).collect()
}

fn op_expr(k: u8) -> String {
    format!("@{}", "-".repeat(k as usize))
}

/// Roots: 0 "R" one workspace, a few operations (describe, new, bookmark, new);
/// 1 "RU" = R + undo; 2 "RUU" = R + undo + undo; 3 "T" = R + second workspace `s` whose
/// working-copy commit was tagged from `default` (so it is immutable) + one more operation.
fn prep_steps(root: usize) -> Vec<LitStep> {
    let lit = |n: u32, cwd: &str, edits: Vec<LitEdit>, args: &[&str]| LitStep {
        n,
        cwd: cwd.into(),
        edits,
        args: s(args),
        judge: String::new(),
        class: "prep".into(),
    };
    let w = |path: &str, c: &str| LitEdit { ws: "d".into(), path: path.into(), content: Some(c.into()) };
    let mut v = vec![
        lit(1, ".", vec![], &["git", "init", "--no-colocate", "d"]),
        lit(2, "d", vec![w("f", "f0\n"), w("g", "g0\n")], &["describe", "-m", "first"]),
        lit(3, "d", vec![], &["new", "-m", "second"]),
        lit(4, "d", vec![w("f", "f1\n")], &["bookmark", "set", "bk", "-r", "@"]),
        lit(5, "d", vec![], &["new"]),
    ];
    match root {
        1 => v.push(LitStep { judge: "undo".into(), ..lit(6, "d", vec![], &["undo"]) }),
        2 => {
            v.push(LitStep { judge: "undo".into(), ..lit(6, "d", vec![], &["undo"]) });
            v.push(LitStep { judge: "undo".into(), ..lit(7, "d", vec![], &["undo"]) });
        }
        3 => {
            v.push(lit(6, "d", vec![], &["workspace", "add", "../s"]));
            v.push(lit(7, "d", vec![], &["tag", "set", "x7", "-r", "s@"]));
            v.push(lit(8, "d", vec![], &["describe", "-m", "third"]));
        }
        _ => {}
    }
    v
}

fn root_name(root: usize) -> &'static str {
    [
        "R: one workspace, 6 operations",
        "RU: R + undo",
        "RUU: R + undo + undo",
        "T: R + workspace s whose working-copy commit is tagged (immutable) + describe",
    ][root]
}

fn expand(dirty: u8, ws: u8, cmd: Cmd, n: u32, has_s: bool) -> LitStep {
    let me = WS_DIR[ws as usize];
    let other_name = WS_NAME[1 - ws as usize];
    let wss: Vec<&str> = if has_s { vec!["d", "s"] } else { vec!["d"] };
    let mut edits = vec![];
    if dirty == 1 {
        for w in &wss {
            edits.push(LitEdit {
                ws: w.to_string(),
                path: "f".into(),
                content: Some(format!("W:f@{w}#{n}:{}\n", "x".repeat(n as usize))),
            });
        }
    }
    let other_at = format!("{other_name}@");
    let (args, judge): (Vec<String>, String) = match cmd {
        Cmd::New => (s(&["new"]), "".into()),
        Cmd::Describe => (s(&["describe", "-m", &format!("d{n}")]), "".into()),
        Cmd::Commit => (s(&["commit", "-m", &format!("c{n}")]), "".into()),
        Cmd::Squash => (s(&["squash", "-u"]), "".into()),
        Cmd::Abandon => (s(&["abandon"]), "".into()),
        Cmd::EditPrev => (s(&["edit", "@-"]), "".into()),
        Cmd::BookmarkSet => (s(&["bookmark", "set", "bk", "-r", "@", "-B"]), "".into()),
        Cmd::BookmarkDelete => (s(&["bookmark", "delete", "bk"]), "".into()),
        Cmd::TagSet => (s(&["tag", "set", &format!("t{n}"), "-r", "@-"]), "".into()),
        Cmd::XTag => (s(&["tag", "set", &format!("x{n}"), "-r", &other_at]), "".into()),
        Cmd::Undo => (s(&["undo"]), "undo".into()),
        Cmd::Redo => (s(&["redo"]), "redo".into()),
        Cmd::OpRestore(k) => (s(&["op", "restore", &op_expr(k)]), format!("op-restore:{k}")),
        Cmd::OpRevert(k) => (s(&["op", "revert", &op_expr(k)]), format!("op-revert:{k}")),
    };
    LitStep { n, cwd: me.to_string(), edits, args, judge, class: format!("{cmd:?}") }
}

// ---------------------------------------------------------------------------------------------
// view comparison (reference: plain sets and maps of ids; no jj code involved)
// ---------------------------------------------------------------------------------------------

impl Inspect {
    fn root_commit(&self) -> Option<CommitId> {
        self.commits.iter().find(|(_, c)| c.parents.is_empty()).map(|(id, _)| id.clone())
    }

    fn ancestors(&self, from: impl IntoIterator<Item = CommitId>) -> BTreeSet<CommitId> {
        let mut seen = BTreeSet::new();
        let mut stack: Vec<CommitId> = from.into_iter().collect();
        while let Some(c) = stack.pop() {
            if !seen.insert(c.clone()) {
                continue;
            }
            if let Some(d) = self.commits.get(&c) {
                stack.extend(d.parents.iter().cloned());
            }
        }
        seen
    }

    /// Default configuration without remotes: immutable = ::(tags()) | root().
    fn immutable_in(&self, v: &View) -> BTreeSet<CommitId> {
        let mut from: Vec<CommitId> = v.local_tags.values().flat_map(|t| t.added_ids().cloned()).collect();
        from.extend(self.root_commit());
        self.ancestors(from)
    }
}

#[derive(Clone, PartialEq, Eq, Debug)]
struct PlainView {
    heads: BTreeSet<CommitId>,
    wcs: BTreeMap<String, CommitId>,
}

fn plain(v: &View) -> PlainView {
    PlainView {
        heads: v.head_ids.iter().cloned().collect(),
        wcs: v.wc_commit_ids.iter().map(|(k, c)| (k.as_str().to_string(), c.clone())).collect(),
    }
}

/// The permitted difference: if the working-copy commit `c` of workspace `w` is an empty,
/// description-less head with a single immutable parent `p` and nothing else refers to it,
/// treat the view as if the working copy were at `p` (jj creates such a `c` when a restored
/// working-copy commit is immutable). Returns the stripped view and whether it stripped.
fn strip_fresh_wc_child(ins: &Inspect, v: &View, w: &str) -> (PlainView, bool) {
    let mut pv = plain(v);
    let stripped = strip_in_place(ins, v, &mut pv, w);
    (pv, stripped)
}

fn strip_in_place(ins: &Inspect, v: &View, pv: &mut PlainView, w: &str) -> bool {
    let Some(c) = pv.wcs.get(w).cloned() else { return false };
    let Some(cd) = ins.commits.get(&c) else { return false };
    if cd.parents.len() != 1 || !cd.desc.is_empty() || !pv.heads.contains(&c) {
        return false;
    }
    let p = cd.parents[0].clone();
    let Some(pd) = ins.commits.get(&p) else { return false };
    if pd.tree_ids != cd.tree_ids || !ins.immutable_in(v).contains(&p) {
        return false;
    }
    let referenced = v.local_bookmarks.values().chain(v.local_tags.values()).any(|t| t.added_ids().any(|id| *id == c))
        || pv.wcs.iter().any(|(k, id)| k != w && *id == c);
    if referenced {
        return false;
    }
    pv.heads.remove(&c);
    if !ins.ancestors(pv.heads.iter().cloned()).contains(&p) {
        pv.heads.insert(p.clone());
    }
    pv.wcs.insert(w.to_string(), p);
    true
}

/// The same identification applied to every workspace (used only to classify a difference).
fn strip_all(ins: &Inspect, v: &View) -> PlainView {
    let mut pv = plain(v);
    let names: Vec<String> = pv.wcs.keys().cloned().collect();
    for w in names {
        strip_in_place(ins, v, &mut pv, &w);
    }
    pv
}

fn short(c: &CommitId) -> String {
    c.hex()[..10].to_string()
}

/// Compares the view `new` (after the command, run in workspace `w`) with the view `exp` it
/// should equal. Returns (field, message) of the first difference, and whether the permitted
/// difference was needed.
fn compare_views(ins: &Inspect, new: &View, exp: &View, w: &str) -> (Option<(String, String)>, bool) {
    if new.local_bookmarks != exp.local_bookmarks {
        return (Some(("bookmarks".into(), format!("local bookmarks {:?} vs expected {:?}", new.local_bookmarks, exp.local_bookmarks))), false);
    }
    if new.local_tags != exp.local_tags {
        return (Some(("tags".into(), format!("tags {:?} vs expected {:?}", new.local_tags, exp.local_tags))), false);
    }
    if new.remote_views != exp.remote_views {
        return (Some(("remote-bookmarks".into(), "remote views differ".to_string())), false);
    }
    let (pn, pe) = (plain(new), plain(exp));
    if pn == pe {
        return (None, false);
    }
    let (sn, a) = strip_fresh_wc_child(ins, new, w);
    let (se, b) = strip_fresh_wc_child(ins, exp, w);
    if (a || b) && sn == se {
        return (None, true);
    }
    // narrow class: the views differ only by an empty working-copy commit of ANOTHER workspace on
    // top of an immutable commit (not covered by the statement's permitted difference, which is
    // about the commit jj creates for the restored working copy of the acting workspace)
    let field = if strip_all(ins, new) == strip_all(ins, exp) {
        "other-workspace-empty-wc-child-of-immutable-commit-differs"
    } else if pn.wcs != pe.wcs {
        "wc"
    } else {
        "heads"
    };
    let fmt = |p: &PlainView| {
        format!(
            "heads {:?} wc {:?}",
            p.heads.iter().map(short).collect::<Vec<_>>(),
            p.wcs.iter().map(|(k, c)| format!("{k}={}", short(c))).collect::<Vec<_>>()
        )
    };
    (Some((field.into(), format!("{} vs expected {}", fmt(&pn), fmt(&pe)))), false)
}

// ---------------------------------------------------------------------------------------------
// states and the transition function
// ---------------------------------------------------------------------------------------------

struct StateData {
    dir: PathBuf,
    n: u32,
    has_s: bool,
    head: Option<OperationId>,
    /// text-editor model of undo/redo: operations whose effects are currently "done" (oldest first)
    done: Vec<OperationId>,
    /// operations that were undone and can be redone (next to redo last)
    undone: Vec<OperationId>,
    key: String,
}

#[derive(Default)]
struct Stats {
    commands: AtomicU64,
    exit_ok: AtomicU64,
    exit_err: AtomicU64,
    judged: AtomicU64,
    judged_with_own_snapshot: AtomicU64,
    permitted_difference_used: AtomicU64,
    unjudged_revert_of_older_op: AtomicU64,
    undo_after_undo: AtomicU64,
    redo_judged: AtomicU64,
    restored_view_differs_from_current: AtomicU64,
    expected_failure_and_failed: AtomicU64,
    model_expected_success_but_failed: AtomicU64,
    succeeded_without_new_operation: AtomicU64,
    failed_examples: Mutex<Vec<String>>,
    per_class: Mutex<BTreeMap<String, [u64; 4]>>, // runs, exit 0, judged, view really changed
}

struct StepOutcome {
    ok: bool,
    stderr: String,
    state: StateData,
    violations: Vec<(String, String)>,
}

fn ws_dirs(dir: &Path) -> Vec<&'static str> {
    WS_DIR.iter().copied().filter(|w| dir.join(w).join(".jj").exists()).collect()
}

fn view_eq_plainly(a: &View, b: &View) -> bool {
    a.head_ids == b.head_ids
        && a.local_bookmarks == b.local_bookmarks
        && a.local_tags == b.local_tags
        && a.remote_views == b.remote_views
        && a.wc_commit_ids == b.wc_commit_ids
}

/// Executes one literal step in `dir` (in place).
fn exec_step(env: &Env, dir: &Path, parent: Option<&StateData>, lit: &LitStep, stats: &Stats) -> StepOutcome {
    for e in &lit.edits {
        let p = dir.join(&e.ws).join(&e.path);
        match &e.content {
            Some(c) => std::fs::write(&p, c).unwrap_or_else(|err| vcommon::machinery_failure(&format!("cannot write {p:?}: {err}"))),
            None => {
                let _ = std::fs::remove_file(&p);
            }
        }
    }
    let out = env.run(&dir.join(&lit.cwd), lit.n, 0, &lit.args);
    stats.commands.fetch_add(1, Ordering::Relaxed);
    let ok = out.code == Some(0);
    if ok {
        stats.exit_ok.fetch_add(1, Ordering::Relaxed);
    } else {
        stats.exit_err.fetch_add(1, Ordering::Relaxed);
    }
    let mut violations = vec![];
    let repo_dir = dir.join("d/.jj/repo");
    let ins = if repo_dir.exists() { inspect(&repo_dir) } else { Inspect::default() };
    if !ins.problems.is_empty() {
        vcommon::machinery_failure(&format!("repository unreadable after jj {:?}: {:?}", lit.args, ins.problems));
    }
    if ins.heads.len() > 1 {
        vcommon::machinery_failure("more than one operation head in a sequential history");
    }
    let head = ins.heads.first().cloned();
    // operations created by this command, oldest first
    let mut chain: Vec<OperationId> = vec![];
    let old_head = parent.and_then(|p| p.head.clone());
    if let Some(h) = &head {
        let mut cur = h.clone();
        loop {
            if Some(&cur) == old_head.as_ref() {
                break;
            }
            let Some(op) = ins.ops.get(&cur) else { break };
            chain.push(cur.clone());
            match op.parents.first() {
                Some(p) if op.parents.len() == 1 => cur = p.clone(),
                _ => break,
            }
        }
        chain.reverse();
    }
    let mut done: Vec<OperationId> = parent.map(|p| p.done.clone()).unwrap_or_default();
    let mut undone: Vec<OperationId> = parent.map(|p| p.undone.clone()).unwrap_or_default();
    let view_of = |id: &OperationId| ins.ops.get(id).map(|o| &o.view);
    let parent_of = |id: &OperationId| ins.ops.get(id).and_then(|o| if o.parents.len() == 1 { Some(o.parents[0].clone()) } else { None });
    let ws_name = if lit.cwd == "s" { "s" } else { "default" };
    let mut judged = false;
    let mut really_changed = false;
    let judge = lit.judge.as_str();
    let is_undo_family = !judge.is_empty();
    // the command's own operation is the last of the chain iff it succeeded and did something
    let (snapshots, own): (Vec<OperationId>, Option<OperationId>) = if is_undo_family && ok && !chain.is_empty() {
        let own = chain.last().cloned();
        (chain[..chain.len() - 1].to_vec(), own)
    } else if is_undo_family {
        (chain.clone(), None)
    } else {
        (vec![], None)
    };
    if !is_undo_family {
        // ordinary command: everything it created is "done"; nothing can be redone any more
        if !chain.is_empty() {
            done.extend(chain.iter().cloned());
            undone.clear();
        }
    } else {
        if !snapshots.is_empty() {
            done.extend(snapshots.iter().cloned());
            undone.clear();
        }
        // the operation the command's transaction started from
        let base = snapshots.last().cloned().or(old_head.clone());
        let mut expected: Option<(OperationId, &'static str)> = None; // (operation whose view is expected, clause)
        let mut expect_failure = false;
        match judge {
            "undo" => match done.last().cloned() {
                Some(t) => match parent_of(&t) {
                    Some(p) => {
                        if own.is_some() {
                            done.pop();
                            undone.push(t.clone());
                            if undone.len() > 1 {
                                stats.undo_after_undo.fetch_add(1, Ordering::Relaxed);
                            }
                        }
                        expected = Some((p, "undo"));
                    }
                    None => expect_failure = true,
                },
                None => expect_failure = true,
            },
            "redo" => match undone.last().cloned() {
                Some(r) => {
                    if own.is_some() {
                        undone.pop();
                        done.push(r.clone());
                    }
                    expected = Some((r, "redo"));
                }
                None => expect_failure = true,
            },
            j if j.starts_with("op-restore:") => {
                let k: usize = j["op-restore:".len()..].parse().unwrap();
                let mut cur = base.clone();
                for _ in 0..k {
                    cur = cur.and_then(|c| parent_of(&c));
                }
                match cur {
                    Some(x) => expected = Some((x, "op-restore")),
                    None => expect_failure = true,
                }
                if let Some(o) = &own {
                    done.push(o.clone());
                    undone.clear();
                }
            }
            j if j.starts_with("op-revert:") => {
                let k: usize = j["op-revert:".len()..].parse().unwrap();
                let mut cur = base.clone();
                for _ in 0..k {
                    cur = cur.and_then(|c| parent_of(&c));
                }
                match (cur.clone(), cur.and_then(|x| parent_of(&x))) {
                    (Some(x), Some(px)) => {
                        // judged only when nothing changed since X (always true for X = latest operation)
                        let same = match (base.as_ref().and_then(|b| view_of(b)), view_of(&x)) {
                            (Some(a), Some(b)) => view_eq_plainly(a, b),
                            _ => false,
                        };
                        if same {
                            expected = Some((px, if k == 0 { "op-revert-latest" } else { "op-revert-unchanged-since" }));
                        } else if own.is_some() {
                            stats.unjudged_revert_of_older_op.fetch_add(1, Ordering::Relaxed);
                        }
                    }
                    _ => expect_failure = true,
                }
                if let Some(o) = &own {
                    done.push(o.clone());
                    undone.clear();
                }
            }
            _ => {}
        }
        if let Some(o) = &own {
            if expect_failure {
                violations.push((
                    format!("C41/{}/succeeded-with-nothing-to-{}", lit.class, if judge == "redo" { "redo" } else { "restore" }),
                    format!("`jj {}` succeeded although the history has no operation it could apply to. stderr: {}", lit.args.join(" "), out.stderr),
                ));
            } else if let Some((x, clause)) = &expected {
                let (Some(nv), Some(ev)) = (view_of(o), view_of(x)) else {
                    vcommon::machinery_failure("view of an operation is missing from the inspection");
                };
                judged = true;
                stats.judged.fetch_add(1, Ordering::Relaxed);
                if !snapshots.is_empty() {
                    stats.judged_with_own_snapshot.fetch_add(1, Ordering::Relaxed);
                }
                if *clause == "redo" {
                    stats.redo_judged.fetch_add(1, Ordering::Relaxed);
                }
                if let Some(bv) = base.as_ref().and_then(|b| view_of(b))
                    && !view_eq_plainly(bv, ev)
                {
                    really_changed = true;
                    stats.restored_view_differs_from_current.fetch_add(1, Ordering::Relaxed);
                }
                let (diff, used) = compare_views(&ins, nv, ev, ws_name);
                if used {
                    stats.permitted_difference_used.fetch_add(1, Ordering::Relaxed);
                }
                if let Some((field, msg)) = diff {
                    violations.push((
                        format!("C41/{clause}/{field}"),
                        format!(
                            "after `jj {}` in {} the view of the new operation {} differs from the view of operation {} ({:?}) it should equal: {msg}",
                            lit.args.join(" "),
                            lit.cwd,
                            &o.hex()[..12],
                            &x.hex()[..12],
                            ins.ops.get(x).map(|d| d.desc.clone()).unwrap_or_default()
                        ),
                    ));
                }
            }
        } else if expect_failure {
            stats.expected_failure_and_failed.fetch_add(1, Ordering::Relaxed);
        } else if let Some((x, clause)) = &expected {
            if ok {
                // jj succeeded without writing an operation ("Nothing changed"): then the view the
                // command should have produced must be the view it started from
                stats.succeeded_without_new_operation.fetch_add(1, Ordering::Relaxed);
                if let (Some(bv), Some(ev)) = (base.as_ref().and_then(|b| view_of(b)), view_of(x)) {
                    let (diff, _) = compare_views(&ins, bv, ev, ws_name);
                    if let Some((field, msg)) = diff {
                        violations.push((
                            format!("C41/{clause}/nothing-changed/{field}"),
                            format!(
                                "`jj {}` in {} succeeded without writing an operation, but the view differs from the view of operation {} it should equal: {msg}",
                                lit.args.join(" "),
                                lit.cwd,
                                &x.hex()[..12]
                            ),
                        ));
                    }
                }
            } else {
                stats.model_expected_success_but_failed.fetch_add(1, Ordering::Relaxed);
                let mut ex = stats.failed_examples.lock().unwrap();
                if ex.len() < 8 {
                    let errs: Vec<&str> =
                        out.stderr.lines().filter(|l| l.starts_with("Error") || l.starts_with("Caused") || l.starts_with("Hint")).collect();
                    ex.push(format!("jj {} (in {}, exit {:?}): {}", lit.args.join(" "), lit.cwd, out.code, errs.join(" | ")));
                }
            }
        }
    }

    // canonical key
    let mut cmemo = HashMap::new();
    let mut omemo = HashMap::new();
    let mut key = String::new();
    let mut hs: Vec<u64> = ins.heads.iter().map(|h| ins.op_hash(h, &mut cmemo, &mut omemo)).collect();
    hs.sort();
    key.push_str(&format!("ops{hs:x?}"));
    for w in ws_dirs(dir) {
        let (st, wc_op) = workspace_state(&dir.join(w), &ins);
        let oh = wc_op.map(|o| ins.op_hash(&o, &mut cmemo, &mut omemo)).unwrap_or(0);
        key.push_str(&format!("|{w}:{st}:{oh:x}:"));
        let mut buf = vec![];
        for (p, c) in disk_files(&dir.join(w)) {
            buf.extend(p.as_bytes());
            buf.push(0);
            buf.extend(c);
            buf.push(1);
        }
        key.push_str(&format!("{:x}", vcommon::fnv(&buf)));
    }
    // the undo/redo model is a function of the operation log, but keep it in the key explicitly
    let dh: Vec<u64> = done.iter().map(|o| ins.op_hash(o, &mut cmemo, &mut omemo)).collect();
    let uh: Vec<u64> = undone.iter().map(|o| ins.op_hash(o, &mut cmemo, &mut omemo)).collect();
    key.push_str(&format!("|done{:x}|undone{:x}", vcommon::fnv(format!("{dh:?}").as_bytes()), vcommon::fnv(format!("{uh:?}").as_bytes())));
    {
        let mut pc = stats.per_class.lock().unwrap();
        let e = pc.entry(lit.class.clone()).or_insert([0; 4]);
        e[0] += 1;
        e[1] += ok as u64;
        e[2] += judged as u64;
        e[3] += really_changed as u64;
    }
    let has_s = dir.join("s/.jj").exists();
    StepOutcome {
        ok,
        stderr: out.stderr.clone(),
        state: StateData { dir: dir.to_path_buf(), n: lit.n, has_s, head, done, undone, key },
        violations,
    }
}

struct Phase {
    name: &'static str,
    root: usize,
    /// (workspace, command, dirty patterns)
    acts: Vec<(u8, Cmd, Vec<u8>)>,
    depth: usize,
}

fn enabled(phase: &Phase, st: &StateData, depth_done: usize) -> Vec<Act> {
    if depth_done >= phase.depth {
        return vec![];
    }
    let mut out = vec![];
    for (ws, cmd, pats) in &phase.acts {
        if (*ws == 1 || *cmd == Cmd::XTag) && !st.has_s {
            continue;
        }
        for &dirty in pats {
            out.push(Act::Step { dirty, ws: *ws, cmd: *cmd });
        }
    }
    out
}

fn phases(thorough: bool) -> Vec<Phase> {
    // quick alphabet in `default`: base commands on a clean working copy, undo family clean and dirty
    let mut core: Vec<(u8, Cmd, Vec<u8>)> = BASE.iter().map(|c| (0u8, *c, vec![0u8])).collect();
    core.extend(UNDO_CORE.iter().map(|c| (0u8, *c, vec![0u8, 1u8])));
    let mut full: Vec<(u8, Cmd, Vec<u8>)> = BASE.iter().map(|c| (0u8, *c, vec![0u8, 1u8])).collect();
    full.extend(UNDO_FULL.iter().map(|c| (0u8, *c, vec![0u8, 1u8])));
    // two workspaces: everything in `default` + tagging s@ from default + undo family and two base commands in `s`
    let mut two: Vec<(u8, Cmd, Vec<u8>)> = core.clone();
    two.push((0, Cmd::XTag, vec![0]));
    two.extend(UNDO_CORE.iter().map(|c| (1u8, *c, vec![0u8, 1u8])));
    two.push((1, Cmd::New, vec![0]));
    two.push((1, Cmd::Describe, vec![1]));
    let mut v = vec![
        Phase { name: "RU:after-undo/core/d1", root: 1, acts: core.clone(), depth: 1 },
        Phase { name: "RUU:after-undo-undo/core/d1", root: 2, acts: core.clone(), depth: 1 },
        Phase { name: "T:two-ws-immutable-wc/two/d1", root: 3, acts: two.clone(), depth: 1 },
        Phase { name: "R:one-ws/core/d2", root: 0, acts: core.clone(), depth: 2 },
    ];
    if thorough {
        v.push(Phase { name: "R:one-ws/full/d2", root: 0, acts: full.clone(), depth: 2 });
        v.push(Phase { name: "RU:after-undo/core/d2", root: 1, acts: core.clone(), depth: 2 });
        v.push(Phase { name: "RUU:after-undo-undo/core/d2", root: 2, acts: core.clone(), depth: 2 });
        v.push(Phase { name: "T:two-ws-immutable-wc/two/d2", root: 3, acts: two.clone(), depth: 2 });
        v.push(Phase { name: "R:one-ws/core/d3", root: 0, acts: core.clone(), depth: 3 });
    }
    v
}

fn fresh_dir(env: &Env) -> PathBuf {
    static N: AtomicU64 = AtomicU64::new(0);
    env.root.join(format!("st/{}", N.fetch_add(1, Ordering::Relaxed)))
}

/// Builds a state from scratch: preparation script + the literal steps, oracle on every step.
fn run_from_scratch(env: &Env, prep: &[LitStep], steps: &[LitStep], stats: &Stats) -> (StateData, Vec<(String, String)>) {
    let dir = fresh_dir(env);
    std::fs::create_dir_all(&dir).unwrap();
    let mut violations = vec![];
    let mut last: Option<StateData> = None;
    for (i, lit) in prep.iter().chain(steps.iter()).enumerate() {
        let o = exec_step(env, &dir, last.as_ref(), lit, stats);
        if i < prep.len() && !o.ok {
            vcommon::machinery_failure(&format!("preparation command jj {:?} failed: {}", lit.args, o.stderr));
        }
        violations.extend(o.violations);
        last = Some(o.state);
    }
    (last.unwrap(), violations)
}

fn case_json(phase: &str, prep: &[LitStep], steps: &[LitStep]) -> Value {
    json!({ "phase": phase, "prep": prep, "steps": steps })
}

fn main() {
    let ctx = Ctx::from_args("C41", Level::ModelChecking);
    vcommon::silence_panics();
    let jjv = std::env::var("JJV_BIN")
        .map(PathBuf::from)
        .unwrap_or_else(|_| std::env::current_exe().unwrap().parent().unwrap().join("jjv"));
    if !jjv.exists() {
        vcommon::machinery_failure("the jj binary (jjv) has not been built");
    }
    let env = Env::new(ctx.scratch(), jjv);
    let stats = Stats::default();

    if let Some((_sig, case)) = ctx.replay_case() {
        let prep: Vec<LitStep> = serde_json::from_value(case["prep"].clone())
            .unwrap_or_else(|e| vcommon::machinery_failure(&format!("bad replay file: {e}")));
        let steps: Vec<LitStep> = serde_json::from_value(case["steps"].clone())
            .unwrap_or_else(|e| vcommon::machinery_failure(&format!("bad replay file: {e}")));
        let (_st, violations) = run_from_scratch(&env, &prep, &steps, &stats);
        for (sig, msg) in violations {
            println!("replay: {sig}: {msg}");
            ctx.violation(&sig, msg, case.clone());
        }
        ctx.finish(Coverage { evaluations: 1, ..Default::default() });
    }

    let phases = phases(ctx.thorough());
    // wall-clock cap (the machine is shared: one jj command costs 0.2 s when idle and several
    // seconds under load); VERIF_WALL_CAP_S overrides it, e.g. to complete the bound on a loaded machine
    let wall_cap = std::env::var("VERIF_WALL_CAP_S")
        .ok()
        .and_then(|v| v.parse::<f64>().ok())
        .unwrap_or(ctx.pick(25.0, 1200.0));
    let capped = AtomicBool::new(false);
    let skipped = AtomicU64::new(0);
    let start = Instant::now();
    let states: Mutex<HashMap<Vec<Act>, Arc<StateData>>> = Mutex::new(HashMap::new());
    let lits: Mutex<HashMap<Vec<Act>, Vec<LitStep>>> = Mutex::new(HashMap::new());
    let samples = vcommon::Samples::new(6);
    let max_depth = phases.iter().map(|p| p.depth).max().unwrap() + 1;
    let gate_histories: Vec<Vec<Act>> = vec![
        vec![Act::Init(0), Act::Step { dirty: 1, ws: 0, cmd: Cmd::Undo }],
        vec![Act::Init(2), Act::Step { dirty: 1, ws: 1, cmd: Cmd::OpRestore(1) }],
        vec![Act::Init(3), Act::Step { dirty: 0, ws: 0, cmd: Cmd::Abandon }, Act::Step { dirty: 1, ws: 0, cmd: Cmd::Undo }],
    ];
    let gate_seen: Mutex<HashMap<Vec<Act>, String>> = Mutex::new(HashMap::new());
    let changed: Mutex<BTreeMap<String, (u64, u64)>> = Mutex::new(BTreeMap::new());

    let mut root_kinds: Vec<usize> = phases.iter().map(|p| p.root).collect();
    root_kinds.sort();
    root_kinds.dedup();
    let roots: HashMap<usize, Arc<StateData>> = {
        use rayon::prelude::*;
        root_kinds
            .par_iter()
            .map(|&root| {
                let (st, viol) = run_from_scratch(&env, &prep_steps(root), &[], &stats);
                for (sig, msg) in viol {
                    ctx.violation(&sig, msg, case_json("preparation", &prep_steps(root), &[]));
                }
                (root, Arc::new(st))
            })
            .collect()
    };
    let prep_commands = stats.commands.load(Ordering::Relaxed);

    // the wall-clock budget of the search starts when the roots are prepared
    let start = Instant::now();
    let step = |h: &[Act]| -> Option<bfs::StepResult<Act>> {
        if h.is_empty() {
            return Some(bfs::StepResult { key: "root".into(), actions: (0..phases.len()).map(Act::Init).collect() });
        }
        let Act::Init(pi) = h[0] else { unreachable!() };
        let phase = &phases[pi];
        if h.len() == 1 {
            let st = roots[&phase.root].clone();
            let acts = enabled(phase, &st, 0);
            let key = format!("{}|{}", phase.name, st.key);
            states.lock().unwrap().insert(h.to_vec(), st);
            lits.lock().unwrap().insert(h.to_vec(), vec![]);
            return Some(bfs::StepResult { key, actions: acts });
        }
        // the gate histories are always executed, so that the determinism gate never depends on the cap
        if start.elapsed().as_secs_f64() > wall_cap && !gate_histories.iter().any(|g| g.starts_with(h)) {
            capped.store(true, Ordering::Relaxed);
            skipped.fetch_add(1, Ordering::Relaxed);
            return None;
        }
        let parent_h = &h[..h.len() - 1];
        let parent = states.lock().unwrap().get(parent_h).cloned();
        let parent = parent.unwrap_or_else(|| vcommon::machinery_failure("parent state of a BFS history is missing"));
        let mut steps = lits.lock().unwrap().get(parent_h).cloned().unwrap();
        let Act::Step { dirty, ws, cmd } = h[h.len() - 1].clone() else { unreachable!() };
        let lit = expand(dirty, ws, cmd, parent.n + 1, parent.has_s);
        let dir = fresh_dir(&env);
        copy_tree(&parent.dir, &dir);
        let o = exec_step(&env, &dir, Some(&parent), &lit, &stats);
        steps.push(lit);
        if !o.violations.is_empty() {
            let prep = prep_steps(phase.root);
            for (sig, msg) in &o.violations {
                ctx.violation(sig, msg.clone(), case_json(phase.name, &prep, &steps));
            }
        }
        if h.len() == phase.depth + 1 && cmd.undo_family() {
            samples.offer(|| json!({"phase": phase.name, "steps": steps.iter().map(|l| json!({"in": l.cwd, "edits": l.edits, "jj": l.args})).collect::<Vec<_>>()}));
        }
        let acts = enabled(phase, &o.state, h.len() - 1);
        let key = format!("{}|{}", phase.name, o.state.key);
        {
            let mut ch = changed.lock().unwrap();
            let e = ch.entry(format!("{cmd:?}@{}/P{dirty}", WS_DIR[ws as usize])).or_insert((0, 0));
            e.0 += 1;
            e.1 += (o.state.key != parent.key) as u64;
        }
        if gate_histories.iter().any(|g| g == h) {
            gate_seen.lock().unwrap().insert(h.to_vec(), o.state.key.clone());
        }
        if acts.is_empty() {
            let _ = std::fs::remove_dir_all(&o.state.dir);
        } else {
            states.lock().unwrap().insert(h.to_vec(), Arc::new(o.state));
            lits.lock().unwrap().insert(h.to_vec(), steps);
        }
        Some(bfs::StepResult { key, actions: acts })
    };
    let label = |a: &Act| match a {
        Act::Init(i) => format!("init:{}", phases[*i].name),
        Act::Step { dirty, ws, cmd } => format!("{cmd:?}@{}/P{dirty}", WS_DIR[*ws as usize]),
    };
    let cfg = bfs::BfsConfig { max_depth, max_states: u64::MAX, max_wall_s: f64::MAX };
    let (st, gate_keys) = std::thread::scope(|sc| {
        let gate = sc.spawn(|| {
            use rayon::prelude::*;
            gate_histories
                .par_iter()
                .map(|h| {
                    let Act::Init(pi) = h[0] else { unreachable!() };
                    let phase = &phases[pi];
                    let scratch_stats = Stats::default();
                    let (mut st, _) = run_from_scratch(&env, &prep_steps(phase.root), &[], &scratch_stats);
                    for a in &h[1..] {
                        let Act::Step { dirty, ws, cmd } = a.clone() else { unreachable!() };
                        let lit = expand(dirty, ws, cmd, st.n + 1, st.has_s);
                        let dir = st.dir.clone();
                        let o = exec_step(&env, &dir, Some(&st), &lit, &scratch_stats);
                        st = o.state;
                    }
                    (h.clone(), st.key)
                })
                .collect::<Vec<_>>()
        });
        let st = bfs::search(&cfg, step, label);
        (st, gate.join().unwrap())
    });
    let mut gate_checked = 0u64;
    for (h, key) in &gate_keys {
        if let Some(k) = gate_seen.lock().unwrap().get(h) {
            if k != key {
                vcommon::machinery_failure(&format!(
                    "nondeterministic replay: history {h:?} reached key {k} by snapshot copies and {key} from scratch"
                ));
            }
            gate_checked += 1;
        }
    }
    if gate_checked == 0 {
        vcommon::machinery_failure("determinism gate: none of the gate histories was reached by the search");
    }

    // vacuity
    // per command kind (over all workspaces and dirty patterns): a kind that never changed any state is vacuous
    let never_changed: Vec<String> = {
        let ch = changed.lock().unwrap();
        let mut per_cmd: BTreeMap<String, (u64, u64)> = BTreeMap::new();
        for (k, v) in ch.iter() {
            let e = per_cmd.entry(k.split('@').next().unwrap().to_string()).or_insert((0, 0));
            e.0 += v.0;
            e.1 += v.1;
        }
        per_cmd.iter().filter(|(_, (n, c))| *n > 0 && *c == 0).map(|(l, _)| l.clone()).collect()
    };
    let ld = |c: &AtomicU64| c.load(Ordering::Relaxed);
    if !capped.load(Ordering::Relaxed) {
        if !never_changed.is_empty() {
            vcommon::machinery_failure(&format!("vacuous: actions that never changed the state: {never_changed:?}"));
        }
        if ld(&stats.restored_view_differs_from_current) == 0
            || ld(&stats.redo_judged) == 0
            || ld(&stats.permitted_difference_used) == 0
            || ld(&stats.judged_with_own_snapshot) == 0
        {
            vcommon::machinery_failure("vacuous: an oracle clause was never exercised (restore that changes the view / redo / immutable working-copy exception / undo after own snapshot)");
        }
    }
    let per_class = stats.per_class.lock().unwrap().clone();
    let mut extra: BTreeMap<String, Value> = BTreeMap::new();
    extra.insert(
        "phases".into(),
        json!(phases
            .iter()
            .map(|p| json!({"name": p.name, "root": root_name(p.root), "depth_in_commands": p.depth,
                "actions": p.acts.iter().map(|(ws, c, pats)| format!("{c:?}@{} dirty{pats:?}", WS_DIR[*ws as usize])).collect::<Vec<_>>()}))
            .collect::<Vec<_>>()),
    );
    extra.insert("jj_commands_executed".into(), json!(ld(&stats.commands)));
    extra.insert("jj_commands_for_root_preparation".into(), json!(prep_commands));
    extra.insert("commands_exit_0".into(), json!(ld(&stats.exit_ok)));
    extra.insert("commands_exit_nonzero".into(), json!(ld(&stats.exit_err)));
    extra.insert("undo_family_transitions_judged".into(), json!(ld(&stats.judged)));
    extra.insert("judged_where_the_command_first_snapshotted_a_dirty_working_copy".into(), json!(ld(&stats.judged_with_own_snapshot)));
    extra.insert("judged_where_expected_view_differs_from_the_view_before".into(), json!(ld(&stats.restored_view_differs_from_current)));
    extra.insert("redo_judged".into(), json!(ld(&stats.redo_judged)));
    extra.insert("undo_while_something_was_already_undone".into(), json!(ld(&stats.undo_after_undo)));
    extra.insert("permitted_immutable_working_copy_difference_used".into(), json!(ld(&stats.permitted_difference_used)));
    extra.insert("op_revert_of_older_operation_not_judged".into(), json!(ld(&stats.unjudged_revert_of_older_op)));
    extra.insert("model_expected_failure_and_jj_failed".into(), json!(ld(&stats.expected_failure_and_failed)));
    extra.insert("model_expected_success_but_jj_failed".into(), json!(ld(&stats.model_expected_success_but_failed)));
    extra.insert("undo_family_commands_that_succeeded_without_writing_an_operation".into(), json!(ld(&stats.succeeded_without_new_operation)));
    extra.insert("model_expected_success_but_jj_failed_examples".into(), json!(stats.failed_examples.lock().unwrap().clone()));
    extra.insert(
        "per_command_class".into(),
        json!(per_class.iter().map(|(k, v)| (k.clone(), json!({"runs": v[0], "exit_0": v[1], "judged": v[2], "judged_and_view_changed": v[3]}))).collect::<BTreeMap<_, _>>()),
    );
    extra.insert(
        "per_action_runs_and_state_changes".into(),
        json!(changed.lock().unwrap().iter().map(|(k, v)| (k.clone(), json!([v.0, v.1]))).collect::<BTreeMap<_, _>>()),
    );
    extra.insert("per_depth_new_states".into(), json!(st.per_depth_states));
    extra.insert("max_depth_completed_incl_root_level".into(), json!(st.max_depth_completed));
    extra.insert("wall_cap_s".into(), json!(wall_cap));
    extra.insert("transitions_skipped_by_wall_cap".into(), json!(skipped.load(Ordering::Relaxed)));
    extra.insert("determinism_gate_histories_rebuilt_from_scratch".into(), json!(gate_checked));
    extra.insert("command_kinds_that_never_changed_the_state".into(), json!(never_changed));
    let cov = Coverage {
        evaluations: st.transitions,
        distinct_nontrivial: ld(&stats.restored_view_differs_from_current),
        rule: "every sequence of (dirty pattern, workspace, command) actions of each phase up to the phase's depth from a prepared \
               root; one evaluation = one transition = copy of the parent directory + edits + one real jj command; every successful \
               undo / redo / op restore / op revert transition is judged by comparing the view of the new operation with the view of \
               the operation named by the text-editor model (read through jj-lib); non-trivial = judged transitions whose expected \
               view differs from the view before the command"
            .into(),
        samples: samples.take(),
        exhaustive: !capped.load(Ordering::Relaxed),
        states: Some(st.states),
        transitions: Some(st.transitions),
        traces_validated_against_impl: Some(st.transitions),
        extra,
        assumptions: vec![
            "sequential commands, one operation head".into(),
            "compared: visible heads, local bookmarks, local tags, remote views, working-copy commit ids; git_refs/git_heads are not part of the statement".into(),
            "immutable = ancestors of tags and the root commit (default immutable_heads() in a repository without remotes)".into(),
            "op revert is judged only when nothing changed since the reverted operation (then it must equal undoing it); reverting an older operation is a three-way merge the statement does not describe".into(),
        ],
    };
    ctx.finish(cov);
}

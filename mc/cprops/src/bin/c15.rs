//! C15 — A crash at any point leaves a loadable repo and loses no committed operation.
//!
//! Fault enumeration on the real `jj` binary (built from /repo): for each representative
//! command, a traced run (`strace -f`) yields every file-system–mutating system call the
//! command makes; then, for every such call, the command is re-run from the same prepared
//! repository and killed (SIGKILL injected by strace) right before that call. After each
//! kill the repository is inspected through jj-lib (every operation, view, commit, tree and
//! file readable; old operations still there; head is the old or the new operation) and
//! through the CLI (`jj status`, `jj workspace update-stale` when the working copy is stale),
//! and every file that was on disk before the command must still be on disk or in a
//! commit. Thorough tier adds torn-write variants (the file being written is truncated).

use std::collections::BTreeMap;
use std::collections::BTreeSet;
use std::path::Path;
use std::path::PathBuf;
use std::process::Command;
use std::sync::Mutex;
use std::sync::atomic::AtomicU64;
use std::sync::atomic::Ordering;

use jj_lib::backend::CommitId;
use jj_lib::backend::TreeValue;
use jj_lib::config::ConfigLayer;
use jj_lib::config::ConfigSource;
use jj_lib::config::StackedConfig;
use jj_lib::object_id::ObjectId as _;
use jj_lib::op_store::OperationId;
use jj_lib::repo::RepoLoader;
use jj_lib::settings::UserSettings;
use pollster::FutureExt as _;
use rayon::prelude::*;
use serde_json::Value;
use serde_json::json;
use vcommon::Coverage;
use vcommon::Ctx;
use vcommon::Level;

const TRACE_SET: &str = "openat,write,pwrite64,rename,renameat,renameat2,link,linkat,unlink,unlinkat,mkdir,\
                         mkdirat,rmdir,symlink,symlinkat,ftruncate,truncate,fsync,fdatasync,fchmod,fchmodat,chmod,\
                         utimensat,flock,copy_file_range,sendfile";

struct Env {
    root: PathBuf,
    jjv: PathBuf,
}

fn ts(step: u32) -> String {
    format!("2001-02-03T04:{:02}:{:02}+07:00", step / 60, step % 60)
}

impl Env {
    fn jj(&self, cwd: &Path, step: u32) -> Command {
        let mut c = Command::new(&self.jjv);
        self.apply(&mut c, cwd, step);
        c
    }
    fn apply(&self, c: &mut Command, cwd: &Path, step: u32) {
        c.current_dir(cwd);
        c.env_clear();
        c.env("PATH", "/usr/bin:/bin");
        c.env("HOME", self.root.join("home"));
        c.env("JJ_CONFIG", self.root.join("config.toml"));
        c.env("JJ_USER", "Test User");
        c.env("JJ_EMAIL", "test.user@example.com");
        c.env("JJ_OP_HOSTNAME", "host.example.com");
        c.env("JJ_OP_USERNAME", "test-username");
        c.env("JJ_TZ_OFFSET_MINS", "420");
        c.env("JJ_TIMESTAMP", ts(step));
        c.env("JJ_OP_TIMESTAMP", ts(step));
        c.env("JJ_RANDOMNESS_SEED", step.to_string());
        c.env("RAYON_NUM_THREADS", "1");
        c.env("GIT_CONFIG_GLOBAL", "/dev/null");
        c.env("GIT_CONFIG_SYSTEM", "/dev/null");
        c.env("TMPDIR", self.root.join("tmp"));
        c.env("TZ", "UTC");
    }
    fn run_ok(&self, cwd: &Path, step: u32, args: &[&str]) {
        let out = self.jj(cwd, step).args(args).output().unwrap_or_else(|e| {
            vcommon::machinery_failure(&format!("cannot run jj: {e}"));
        });
        if !out.status.success() {
            vcommon::machinery_failure(&format!(
                "setup command jj {args:?} failed: {}",
                String::from_utf8_lossy(&out.stderr)
            ));
        }
    }
}

fn copy_tree(src: &Path, dst: &Path) {
    std::fs::create_dir_all(dst).unwrap();
    for e in std::fs::read_dir(src).unwrap() {
        let e = e.unwrap();
        let ft = e.file_type().unwrap();
        let d = dst.join(e.file_name());
        if ft.is_dir() {
            copy_tree(&e.path(), &d);
        } else if ft.is_symlink() {
            let t = std::fs::read_link(e.path()).unwrap();
            std::os::unix::fs::symlink(t, &d).unwrap();
        } else {
            std::fs::copy(e.path(), &d).unwrap();
            // keep the mtime: the working copy compares it with its recorded state
            let m = e.metadata().unwrap().modified().unwrap();
            let f = std::fs::File::options().write(true).open(&d);
            if let Ok(f) = f {
                let _ = f.set_modified(m);
            }
        }
    }
}

/// (relative path, content) of every regular file / symlink of the working copy, `.jj` excluded.
fn disk_files(ws: &Path) -> BTreeMap<String, Vec<u8>> {
    fn rec(base: &Path, dir: &Path, out: &mut BTreeMap<String, Vec<u8>>) {
        let Ok(rd) = std::fs::read_dir(dir) else { return };
        for e in rd.flatten() {
            let p = e.path();
            let name = e.file_name().to_string_lossy().to_string();
            if dir == base && name == ".jj" {
                continue;
            }
            let ft = e.file_type().unwrap();
            if ft.is_dir() {
                rec(base, &p, out);
            } else if ft.is_symlink() {
                let t = std::fs::read_link(&p).unwrap();
                out.insert(
                    p.strip_prefix(base).unwrap().to_string_lossy().to_string(),
                    t.to_string_lossy().as_bytes().to_vec(),
                );
            } else if let Ok(bytes) = std::fs::read(&p) {
                out.insert(p.strip_prefix(base).unwrap().to_string_lossy().to_string(), bytes);
            }
        }
    }
    let mut out = BTreeMap::new();
    rec(ws, ws, &mut out);
    out
}

fn lib_settings() -> UserSettings {
    static CACHE: Mutex<Option<StackedConfig>> = Mutex::new(None);
    let config = CACHE
        .lock()
        .unwrap()
        .get_or_insert_with(|| {
            let mut config = StackedConfig::with_defaults();
            let text = r#"
user.name = "Inspector"
user.email = "inspector@example.com"
operation.username = "inspector"
operation.hostname = "inspector"
"#;
            config.add_layer(ConfigLayer::parse(ConfigSource::User, text).unwrap());
            config
        })
        .clone();
    UserSettings::from_config(config).unwrap()
}

#[derive(Default)]
struct Inspection {
    heads: Vec<OperationId>,
    ops: BTreeSet<OperationId>,
    problems: Vec<(String, String)>,
    /// (path, content) of every file in the tree of every commit reachable from any
    /// operation's heads / working-copy commits
    stored: BTreeSet<(String, Vec<u8>)>,
}

fn err_chain(e: &dyn std::error::Error) -> String {
    let mut s = e.to_string();
    let mut cur = e.source();
    while let Some(c) = cur {
        s.push_str(": ");
        s.push_str(&c.to_string());
        cur = c.source();
    }
    s
}

/// Read-only walk over everything the repository stores, through jj-lib.
fn inspect(repo_dir: &Path) -> Inspection {
    let mut ins = Inspection::default();
    let settings = lib_settings();
    let factories = jj_lib::default_backend_factories::default_backend_factories();
    let loader = match vcommon::catch(|| RepoLoader::init_from_file_system(&settings, repo_dir, &factories)) {
        Ok(Ok(l)) => l,
        Ok(Err(e)) => {
            ins.problems.push(("repo-does-not-open".into(), err_chain(&e)));
            return ins;
        }
        Err(p) => {
            ins.problems.push(("repo-open-panic".into(), p));
            return ins;
        }
    };
    match loader.op_heads_store().get_op_heads().block_on() {
        Ok(h) => ins.heads = h,
        Err(e) => {
            ins.problems.push(("op-heads-unreadable".into(), err_chain(&e)));
            return ins;
        }
    }
    let mut stack: Vec<OperationId> = ins.heads.clone();
    let mut commits_to_visit: Vec<CommitId> = vec![];
    let mut op_datas = vec![];
    while let Some(id) = stack.pop() {
        if !ins.ops.insert(id.clone()) {
            continue;
        }
        match loader.op_store().read_operation(&id).block_on() {
            Ok(op) => {
                for p in &op.parents {
                    stack.push(p.clone());
                }
                match loader.op_store().read_view(&op.view_id).block_on() {
                    Ok(view) => {
                        commits_to_visit.extend(view.head_ids.iter().cloned());
                        commits_to_visit.extend(view.wc_commit_ids.values().cloned());
                    }
                    Err(e) => ins.problems.push((
                        "view-unreadable".into(),
                        format!("view of operation {}: {}", &id.hex()[..12], err_chain(&e)),
                    )),
                }
                op_datas.push((id.clone(), op));
            }
            Err(e) => ins.problems.push((
                "operation-unreadable".into(),
                format!("operation {}: {}", &id.hex()[..12], err_chain(&e)),
            )),
        }
    }
    // the head operations must load as repositories (index included)
    for h in &ins.heads {
        if let Some((_, data)) = op_datas.iter().find(|(id, _)| id == h) {
            let op = jj_lib::operation::Operation::new(loader.op_store().clone(), h.clone(), data.clone());
            match vcommon::catch(|| loader.load_at(&op).block_on()) {
                Ok(Ok(_)) => {}
                Ok(Err(e)) => ins.problems.push(("repo-does-not-load-at-head".into(), err_chain(&e))),
                Err(p) => ins.problems.push(("repo-load-panic".into(), p)),
            }
        }
    }
    let store = loader.store().clone();
    let mut seen: BTreeSet<CommitId> = BTreeSet::new();
    while let Some(cid) = commits_to_visit.pop() {
        if !seen.insert(cid.clone()) {
            continue;
        }
        let commit = match vcommon::catch(|| store.get_commit(&cid)) {
            Ok(Ok(c)) => c,
            Ok(Err(e)) => {
                ins.problems.push(("commit-unreadable".into(), format!("{}: {}", &cid.hex()[..12], err_chain(&e))));
                continue;
            }
            Err(p) => {
                ins.problems.push(("commit-read-panic".into(), p));
                continue;
            }
        };
        commits_to_visit.extend(commit.parent_ids().iter().cloned());
        let tree = commit.tree();
        for (path, value) in tree.entries() {
            let value = match value {
                Ok(v) => v,
                Err(e) => {
                    ins.problems.push((
                        "tree-unreadable".into(),
                        format!("commit {} path {:?}: {}", &cid.hex()[..12], path, err_chain(&e)),
                    ));
                    continue;
                }
            };
            for term in value.iter().flatten() {
                match term {
                    TreeValue::File { id, .. } => {
                        let r = vcommon::catch(|| {
                            let mut reader = store.read_file(&path, id).block_on()?;
                            let mut buf = vec![];
                            futures::AsyncReadExt::read_to_end(&mut reader, &mut buf)
                                .block_on()
                                .map_err(|e| jj_lib::backend::BackendError::Other(e.into()))?;
                            Ok::<_, jj_lib::backend::BackendError>(buf)
                        });
                        match r {
                            Ok(Ok(buf)) => {
                                ins.stored.insert((path.as_internal_file_string().to_string(), buf));
                            }
                            Ok(Err(e)) => ins.problems.push((
                                "file-unreadable".into(),
                                format!("commit {} path {:?}: {}", &cid.hex()[..12], path, err_chain(&e)),
                            )),
                            Err(p) => ins.problems.push(("file-read-panic".into(), p)),
                        }
                    }
                    TreeValue::Symlink(id) => match vcommon::catch(|| store.read_symlink(&path, id).block_on()) {
                        Ok(Ok(t)) => {
                            ins.stored.insert((path.as_internal_file_string().to_string(), t.into_bytes()));
                        }
                        Ok(Err(e)) => ins.problems.push(("symlink-unreadable".into(), err_chain(&e))),
                        Err(p) => ins.problems.push(("symlink-read-panic".into(), p)),
                    },
                    _ => {}
                }
            }
        }
    }
    ins
}

#[derive(Clone, Debug)]
struct Scenario {
    name: String,
    backend: &'static str,
    args: Vec<String>,
    template: PathBuf,
    step: u32,
}

/// Builds the prepared repository for a backend: commits `first` (a, b, d/c) <- `other`
/// (a, b changed, e added, d/c removed; bookmark `other`), and `first` <- `second` = @ with an
/// unsnapshotted edit of `a` and a new untracked file `n`.
fn prepare(env: &Env, backend: &'static str) -> PathBuf {
    let dir = env.root.join(format!("template-{backend}"));
    std::fs::create_dir_all(&dir).unwrap();
    let ws = dir.join("ws");
    match backend {
        "git" => env.run_ok(&dir, 1, &["git", "init", "--no-colocate", "ws"]),
        _ => env.run_ok(&dir, 1, &["debug", "init-simple", "ws"]),
    }
    std::fs::write(ws.join("a"), "a1\n").unwrap();
    std::fs::write(ws.join("b"), "b1\n").unwrap();
    std::fs::create_dir_all(ws.join("d")).unwrap();
    std::fs::write(ws.join("d/c"), "c1\n").unwrap();
    env.run_ok(&ws, 2, &["describe", "-m", "first"]);
    env.run_ok(&ws, 3, &["new", "-m", "other"]);
    std::fs::write(ws.join("b"), "b-other\n").unwrap();
    std::fs::write(ws.join("e"), "e-other\n").unwrap();
    std::fs::remove_file(ws.join("d/c")).unwrap();
    env.run_ok(&ws, 4, &["bookmark", "create", "other", "-r", "@"]);
    env.run_ok(&ws, 5, &["new", "-m", "second", "description(exact:\"first\\n\")"]);
    env.run_ok(&ws, 6, &["bookmark", "create", "base", "-r", "@-"]);
    // unsnapshotted state the command will find
    std::fs::write(ws.join("a"), "a2-unsnapshotted\n").unwrap();
    std::fs::write(ws.join("n"), "new-untracked\n").unwrap();
    // same content, newer mtime: the snapshot re-reads `b` and stores a blob that already
    // exists and is referenced (an in-place rewrite of an existing object would be observable)
    if let Ok(f) = std::fs::File::options().write(true).open(ws.join("b")) {
        let _ = f.set_modified(std::time::SystemTime::now() - std::time::Duration::from_secs(5));
    }
    dir
}

#[derive(Clone, Debug)]
struct Call {
    thread: usize,
    name: String,
    /// 1-based index among the calls of this name in this thread
    k: usize,
    interesting: bool,
    /// path written (for write/pwrite64), from strace -y
    fd_path: Option<String>,
    text: String,
}

fn mask(s: &str) -> String {
    // mask temp-file names, O_TMPFILE inode numbers and pids
    let mut out = String::new();
    let b = s.as_bytes();
    let mut i = 0;
    while i < b.len() {
        if s[i..].starts_with(".tmp") {
            out.push_str(".tmpXXXXXX");
            i += 4;
            while i < b.len() && b[i].is_ascii_alphanumeric() {
                i += 1;
            }
        } else if b[i] == b'#' {
            out.push('#');
            i += 1;
            while i < b.len() && b[i].is_ascii_digit() {
                i += 1;
            }
        } else {
            out.push(b[i] as char);
            i += 1;
        }
    }
    out
}

fn parse_trace(log: &str, ws_root: &str) -> Vec<Call> {
    let mut threads: Vec<String> = vec![];
    let mut counts: BTreeMap<(usize, String), usize> = BTreeMap::new();
    let mut calls = vec![];
    for line in log.lines() {
        let mut parts = line.splitn(2, char::is_whitespace);
        let pid = parts.next().unwrap_or("").to_string();
        let rest = parts.next().unwrap_or("").trim_start();
        if rest.starts_with("<...") || rest.starts_with("+++") || rest.starts_with("---") {
            continue;
        }
        let Some(paren) = rest.find('(') else { continue };
        let name = rest[..paren].to_string();
        if !name.chars().all(|c| c.is_ascii_alphanumeric() || c == '_') {
            continue;
        }
        let thread = match threads.iter().position(|p| *p == pid) {
            Some(t) => t,
            None => {
                threads.push(pid.clone());
                threads.len() - 1
            }
        };
        let k = {
            let c = counts.entry((thread, name.clone())).or_insert(0);
            *c += 1;
            *c
        };
        let args = &rest[paren + 1..];
        let fd_path = if args.starts_with(|c: char| c.is_ascii_digit()) {
            args.find('<').and_then(|a| args[a + 1..].find('>').map(|b| args[a + 1..a + 1 + b].to_string()))
        } else {
            None
        };
        let interesting = match name.as_str() {
            "openat" => {
                ["O_WRONLY", "O_RDWR", "O_CREAT", "O_TRUNC", "O_TMPFILE"].iter().any(|f| args.contains(f))
                    && args.contains(ws_root)
            }
            "write" | "pwrite64" => fd_path.as_deref().is_some_and(|p| p.starts_with(ws_root)),
            "flock" | "fsync" | "fdatasync" | "ftruncate" | "fchmod" => {
                fd_path.as_deref().is_some_and(|p| p.starts_with(ws_root))
            }
            _ => args.contains(ws_root),
        };
        let text = mask(&rest.replace(ws_root, "$WS"));
        // drop return value for comparison purposes
        let text = text.split(" = ").next().unwrap_or("").to_string();
        calls.push(Call { thread, name, k, interesting, fd_path, text });
    }
    calls
}

struct TraceRun {
    log: String,
    status_ok: bool,
}

static RUN_COUNTER: AtomicU64 = AtomicU64::new(0);

fn fresh(env: &Env) -> PathBuf {
    let n = RUN_COUNTER.fetch_add(1, Ordering::Relaxed);
    env.root.join(format!("run{n}"))
}

/// Runs the scenario's command under strace in a fresh copy; optionally with a kill injected.
fn traced(env: &Env, sc: &Scenario, inject: Option<(&str, usize)>) -> (PathBuf, TraceRun) {
    let dir = fresh(env);
    copy_tree(&sc.template, &dir);
    let ws = dir.join("ws");
    let log = dir.join("strace.log");
    let mut c = Command::new("strace");
    env.apply(&mut c, &ws, sc.step);
    c.arg("-f").arg("-y").arg("-s").arg("0").arg("-o").arg(&log);
    c.arg("-e").arg(format!("trace={TRACE_SET}"));
    if let Some((name, k)) = inject {
        c.arg("-e").arg(format!("inject={name}:signal=SIGKILL:when={k}"));
    }
    c.arg(&env.jjv).args(&sc.args);
    let out = c.output().unwrap_or_else(|e| vcommon::machinery_failure(&format!("cannot run strace: {e}")));
    let log_text = std::fs::read_to_string(&log).unwrap_or_default();
    let _ = std::fs::remove_file(&log);
    (dir, TraceRun { log: log_text, status_ok: out.status.success() })
}

struct Baseline {
    calls: Vec<Call>,
    pre_ops: BTreeSet<OperationId>,
    pre_head: OperationId,
    post_ops: BTreeSet<OperationId>,
    pre_disk: BTreeMap<String, Vec<u8>>,
}

fn thread_signatures(calls: &[Call]) -> Vec<String> {
    let n = calls.iter().map(|c| c.thread).max().map(|m| m + 1).unwrap_or(0);
    let mut sigs: Vec<String> = (0..n)
        .map(|t| {
            calls
                .iter()
                .filter(|c| c.thread == t && c.interesting)
                .map(|c| c.text.clone())
                .collect::<Vec<_>>()
                .join("\n")
        })
        .collect();
    sigs.sort();
    sigs
}

fn baseline(env: &Env, sc: &Scenario) -> Baseline {
    let pre = inspect(&sc.template.join("ws/.jj/repo"));
    if !pre.problems.is_empty() || pre.heads.len() != 1 {
        vcommon::machinery_failure(&format!("template of {} is not clean: {:?}", sc.name, pre.problems));
    }
    let pre_disk = disk_files(&sc.template.join("ws"));
    let (d1, r1) = traced(env, sc, None);
    if !r1.status_ok {
        vcommon::machinery_failure(&format!("uninterrupted run of {} failed", sc.name));
    }
    let ws_root1 = d1.join("ws").to_string_lossy().to_string();
    let calls1 = parse_trace(&r1.log, &ws_root1);
    let post = inspect(&d1.join("ws/.jj/repo"));
    if !post.problems.is_empty() {
        vcommon::machinery_failure(&format!("uninterrupted run of {} leaves problems: {:?}", sc.name, post.problems));
    }
    let (d2, r2) = traced(env, sc, None);
    let ws_root2 = d2.join("ws").to_string_lossy().to_string();
    let calls2 = parse_trace(&r2.log, &ws_root2);
    let post2 = inspect(&d2.join("ws/.jj/repo"));
    if thread_signatures(&calls1) != thread_signatures(&calls2) {
        let a = thread_signatures(&calls1).join("\n====\n");
        let b = thread_signatures(&calls2).join("\n====\n");
        let _ = std::fs::write(env.root.join("nondet_a.txt"), a);
        let _ = std::fs::write(env.root.join("nondet_b.txt"), b);
        vcommon::machinery_failure(&format!(
            "command {} is not enumerable: two traced runs made different sequences of mutating calls",
            sc.name
        ));
    }
    if post.ops != post2.ops {
        vcommon::machinery_failure(&format!("operation ids of {} are not deterministic", sc.name));
    }
    let _ = std::fs::remove_dir_all(&d1);
    let _ = std::fs::remove_dir_all(&d2);
    let post_ops: BTreeSet<OperationId> = post.ops.difference(&pre.ops).cloned().collect();
    Baseline { calls: calls1, pre_head: pre.heads[0].clone(), pre_ops: pre.ops, post_ops, pre_disk }
}

#[derive(Clone, Debug, serde::Serialize, serde::Deserialize)]
struct Point {
    scenario: String,
    syscall: String,
    k: usize,
    /// None, or truncate the file being written to this fraction (0 = empty, 1 = half)
    torn: Option<u8>,
    what: String,
}

struct PointResult {
    violations: Vec<(String, String)>,
    killed: bool,
    hit: Option<(usize, String, usize)>,
    head_state: &'static str,
    stale_recovered: bool,
}

fn run_point(env: &Env, sc: &Scenario, base: &Baseline, pt: &Point) -> PointResult {
    let (dir, run) = traced(env, sc, Some((&pt.syscall, pt.k)));
    let ws = dir.join("ws");
    let ws_root = ws.to_string_lossy().to_string();
    let mut violations: Vec<(String, String)> = vec![];
    let killed = run.log.contains("+++ killed by SIGKILL +++");
    // where did the kill land?
    let calls = parse_trace(&run.log, &ws_root);
    let hit = run
        .log
        .lines()
        .filter(|l| l.trim_end().ends_with("= ?") || l.contains("<unfinished ...>"))
        .filter_map(|l| {
            let pid = l.split_whitespace().next()?;
            let name = l.split_whitespace().nth(1)?.split('(').next()?.to_string();
            if name != pt.syscall {
                return None;
            }
            let _ = pid;
            calls.iter().rev().find(|c| c.name == name && c.k == pt.k).map(|c| (c.thread, c.name.clone(), c.k))
        })
        .last();
    if let Some(t) = pt.torn
        && killed
    {
        // torn write: the file whose write was interrupted is truncated
        if let Some(c) = calls.iter().rev().find(|c| c.name == pt.syscall && c.k == pt.k)
            && let Some(p) = &c.fd_path
        {
            let p = p.trim_end_matches("(deleted)");
            if let Ok(meta) = std::fs::metadata(p) {
                let len = if t == 0 { 0 } else { meta.len() / 2 };
                if let Ok(f) = std::fs::File::options().write(true).open(p) {
                    let _ = f.set_len(len);
                }
            }
        }
    }
    let tag = format!("{}/{}", sc.backend, sc.name);
    // 1. library-level inspection
    let ins = inspect(&ws.join(".jj/repo"));
    for (sig, msg) in &ins.problems {
        violations.push((format!("C15/{tag}/{sig}"), format!("after kill before {} #{}: {msg}", pt.syscall, pt.k)));
    }
    let mut head_state = "unknown";
    if ins.problems.is_empty() {
        for op in &base.pre_ops {
            if !ins.ops.contains(op) {
                violations.push((
                    format!("C15/{tag}/old-operation-lost"),
                    format!("operation {} existed before the command and is not in the log after the crash", &op.hex()[..12]),
                ));
            }
        }
        if ins.heads.is_empty() {
            violations.push((format!("C15/{tag}/no-op-head"), "no operation head after the crash".into()));
        }
        for h in &ins.heads {
            if *h == base.pre_head {
                head_state = "before";
            } else if base.post_ops.contains(h) {
                if head_state != "before" {
                    head_state = "after";
                }
            } else {
                violations.push((
                    format!("C15/{tag}/head-is-neither-old-nor-new"),
                    format!("head operation {} is neither the pre-command head nor an operation of the uninterrupted run", &h.hex()[..12]),
                ));
            }
        }
    }
    // 2. CLI: status, update-stale if needed
    let mut stale_recovered = false;
    if violations.is_empty() {
        let st = env.jj(&ws, 200).args(["status"]).output().unwrap();
        if !st.status.success() {
            let err = String::from_utf8_lossy(&st.stderr).to_string();
            if err.contains("stale") || err.contains("update-stale") {
                let up = env.jj(&ws, 201).args(["workspace", "update-stale"]).output().unwrap();
                if !up.status.success() {
                    violations.push((
                        format!("C15/{tag}/update-stale-fails"),
                        format!("jj workspace update-stale failed: {}", String::from_utf8_lossy(&up.stderr)),
                    ));
                } else {
                    stale_recovered = true;
                    let st2 = env.jj(&ws, 202).args(["status"]).output().unwrap();
                    if !st2.status.success() {
                        violations.push((
                            format!("C15/{tag}/status-fails-after-update-stale"),
                            String::from_utf8_lossy(&st2.stderr).to_string(),
                        ));
                    }
                }
            } else {
                violations.push((format!("C15/{tag}/status-fails"), format!("jj status failed: {err}")));
            }
        }
    }
    // 3. nothing that was on disk is lost
    if violations.is_empty() {
        let after = inspect(&ws.join(".jj/repo"));
        for (sig, msg) in &after.problems {
            violations.push((format!("C15/{tag}/after-recovery/{sig}"), msg.clone()));
        }
        let disk = disk_files(&ws);
        for (path, content) in &base.pre_disk {
            let on_disk = disk.get(path) == Some(content);
            let stored = after.stored.contains(&(path.clone(), content.clone()));
            if !on_disk && !stored {
                violations.push((
                    format!("C15/{tag}/file-lost"),
                    format!(
                        "{path} ({:?}) was on disk before the command; after the crash and recovery it is neither on disk nor in any commit",
                        String::from_utf8_lossy(content)
                    ),
                ));
            }
        }
    }
    let _ = std::fs::remove_dir_all(&dir);
    PointResult { violations, killed, hit, head_state, stale_recovered }
}

fn scenarios(env: &Env, quick: bool) -> Vec<Scenario> {
    let mut out = vec![];
    let backends: Vec<&'static str> = if quick { vec!["git"] } else { vec!["git", "simple"] };
    for backend in backends {
        let template = prepare(env, backend);
        let mut add = |name: &str, args: &[&str]| {
            out.push(Scenario {
                name: name.to_string(),
                backend,
                args: args.iter().map(|s| s.to_string()).collect(),
                template: template.clone(),
                step: 50,
            });
        };
        add("describe", &["describe", "-m", "third"]);
        add("edit-other", &["edit", "other"]);
        if !quick {
            add("status-snapshot", &["status"]);
            add("new", &["new"]);
            add("commit", &["commit", "-m", "committed"]);
            add("squash", &["squash", "-u"]);
            add("abandon", &["abandon"]);
            add("rebase", &["rebase", "-r", "@", "-d", "other"]);
            add("bookmark-create", &["bookmark", "create", "bm"]);
            add("undo", &["undo"]);
            add("op-restore", &["op", "restore", "@--"]);
            add("workspace-add", &["workspace", "add", "../ws2"]);
        }
    }
    // interleave the backends, so that a wall-clock cap cuts commands, not a whole backend
    let order = [
        "describe", "edit-other", "status-snapshot", "new", "commit", "squash", "abandon", "rebase",
        "bookmark-create", "undo", "op-restore", "workspace-add",
    ];
    out.sort_by_key(|s| (order.iter().position(|n| *n == s.name).unwrap_or(99), s.backend));
    out
}

fn main() {
    let ctx = Ctx::from_args("C15", Level::FaultEnumeration);
    vcommon::silence_panics();
    let jjv = std::env::var("JJV_BIN").map(PathBuf::from).unwrap_or_else(|_| {
        std::env::current_exe().unwrap().parent().unwrap().join("jjv")
    });
    if !jjv.exists() {
        vcommon::machinery_failure("the jj binary (jjv) has not been built");
    }
    let env = Env { root: ctx.scratch().to_path_buf(), jjv };
    std::fs::create_dir_all(env.root.join("home")).unwrap();
    std::fs::create_dir_all(env.root.join("tmp")).unwrap();
    std::fs::write(
        env.root.join("config.toml"),
        "[ui]\ncolor = \"never\"\npaginate = \"never\"\n[snapshot]\nauto-update-stale = false\n",
    )
    .unwrap();
    let scs = scenarios(&env, ctx.quick());

    if let Some((_sig, case)) = ctx.replay_case() {
        let pt: Point = serde_json::from_value(case.clone()).unwrap();
        let backend = case["backend"].as_str().unwrap_or("git");
        let sc = scs
            .iter()
            .find(|s| s.name == pt.scenario && s.backend == backend)
            .cloned()
            .or_else(|| {
                // thorough-only scenario requested in quick replay: build the full list
                scenarios(&env, false).into_iter().find(|s| s.name == pt.scenario && s.backend == backend)
            })
            .unwrap_or_else(|| vcommon::machinery_failure("unknown scenario in replay file"));
        let base = baseline(&env, &sc);
        let r = run_point(&env, &sc, &base, &pt);
        for (sig, msg) in &r.violations {
            ctx.violation(sig, msg.clone(), case.clone());
        }
        println!("killed={} head={} stale_recovered={}", r.killed, r.head_state, r.stale_recovered);
        ctx.finish(Coverage { evaluations: 1, ..Default::default() });
    }

    let mut per_scenario = vec![];
    let mut evaluations = 0u64;
    let mut distinct_hit: u64 = 0;
    let mut samples: Vec<Value> = vec![];
    let mut all_before = 0u64;
    let mut all_after = 0u64;
    let mut all_stale = 0u64;
    let mut all_not_killed = 0u64;
    let mut total_points_known = 0u64;
    let wall_cap = ctx.pick(600.0, 1500.0);
    let mut not_run: Vec<String> = vec![];
    for sc in &scs {
        if ctx.elapsed_s() > wall_cap {
            // wall-clock cap: the remaining commands are not enumerated in this run
            not_run.push(format!("{}/{}", sc.backend, sc.name));
            continue;
        }
        let base = baseline(&env, sc);
        // kill points: every distinct (syscall, k) that has an interesting occurrence
        let mut points: BTreeMap<(String, usize), String> = BTreeMap::new();
        for c in &base.calls {
            if c.interesting {
                points.entry((c.name.clone(), c.k)).or_insert_with(|| c.text.clone());
            }
        }
        let interesting_calls: BTreeSet<(usize, String, usize)> =
            base.calls.iter().filter(|c| c.interesting).map(|c| (c.thread, c.name.clone(), c.k)).collect();
        let mut pts: Vec<Point> = points
            .iter()
            .map(|((name, k), text)| Point {
                scenario: sc.name.clone(),
                syscall: name.clone(),
                k: *k,
                torn: None,
                what: text.chars().take(160).collect(),
            })
            .collect();
        if ctx.thorough() {
            let torn: Vec<Point> = pts
                .iter()
                .filter(|p| p.syscall == "write" || p.syscall == "pwrite64")
                .flat_map(|p| {
                    [0u8, 1u8].into_iter().map(|t| Point { torn: Some(t), ..p.clone() })
                })
                .collect();
            pts.extend(torn);
        }
        let results: Vec<(Point, PointResult)> =
            pts.par_iter().map(|pt| (pt.clone(), run_point(&env, sc, &base, pt))).collect();
        let mut hit_set: BTreeSet<(usize, String, usize)> = BTreeSet::new();
        let (mut before, mut after, mut stale, mut not_killed) = (0u64, 0u64, 0u64, 0u64);
        for (pt, r) in &results {
            evaluations += 1;
            if !r.killed {
                not_killed += 1;
            }
            if let Some(h) = &r.hit {
                hit_set.insert(h.clone());
            }
            match r.head_state {
                "before" => before += 1,
                "after" => after += 1,
                _ => {}
            }
            if r.stale_recovered {
                stale += 1;
            }
            for (sig, msg) in &r.violations {
                let mut case = serde_json::to_value(pt).unwrap();
                case["backend"] = json!(sc.backend);
                ctx.violation(sig, msg.clone(), case);
            }
        }
        if samples.len() < 6 {
            if let Some((pt, _)) = results.iter().find(|(_, r)| r.head_state == "after") {
                samples.push(json!({"backend": sc.backend, "scenario": sc.name, "kill_before": pt.what, "k": pt.k}));
            }
            if let Some((pt, _)) = results.iter().find(|(_, r)| r.head_state == "before" && r.killed) {
                samples.push(json!({"backend": sc.backend, "scenario": sc.name, "kill_before": pt.what, "k": pt.k}));
            }
        }
        if before + after == 0 && ctx.violation_count() == 0 {
            vcommon::machinery_failure(&format!(
                "vacuous: no kill of scenario {}/{} left a classifiable head (before={before}, after={after})",
                sc.backend, sc.name
            ));
        }
        all_before += before;
        all_after += after;
        all_stale += stale;
        all_not_killed += not_killed;
        distinct_hit += hit_set.len() as u64;
        total_points_known += interesting_calls.len() as u64;
        per_scenario.push(json!({
            "backend": sc.backend, "scenario": sc.name, "command": sc.args,
            "mutating_calls_in_uninterrupted_run": interesting_calls.len(),
            "threads": base.calls.iter().map(|c| c.thread).max().map(|m| m + 1).unwrap_or(0),
            "kill_points_run": results.len(),
            "distinct_calls_actually_killed_at": hit_set.len(),
            "runs_where_the_kill_did_not_fire": not_killed,
            "head_before": before, "head_after": after, "stale_working_copy_recovered": stale,
            "new_operations_of_uninterrupted_run": base.post_ops.len(),
        }));
    }
    if (all_before == 0 || all_after == 0) && ctx.violation_count() == 0 {
        vcommon::machinery_failure("vacuous: crashes never landed both before and after the publication of the new operation");
    }
    let cov = Coverage {
        evaluations,
        distinct_nontrivial: distinct_hit,
        rule: "for each command, one kill (SIGKILL before the system call executes) per (system call name, per-thread \
               occurrence index) of every file-system-mutating call that touches the workspace in the uninterrupted \
               traced run; thorough adds two torn-write variants (file truncated to 0 / half) per write call; \
               distinct non-trivial = distinct (thread, call, index) positions at which a kill was observed to land"
            .into(),
        samples,
        exhaustive: not_run.is_empty(),
        extra: [
            ("per_scenario".to_string(), json!(per_scenario)),
            ("commands_not_enumerated_because_of_the_wall_clock_cap".to_string(), json!(not_run)),
            ("wall_clock_cap_s".to_string(), json!(wall_cap)),
            ("mutating_calls_total".to_string(), json!(total_points_known)),
            ("crashes_leaving_old_head".to_string(), json!(all_before)),
            ("crashes_leaving_new_head".to_string(), json!(all_after)),
            ("stale_working_copies_recovered".to_string(), json!(all_stale)),
            ("runs_where_the_kill_did_not_fire".to_string(), json!(all_not_killed)),
        ]
        .into_iter()
        .collect(),
        assumptions: vec![
            "process kill, not power loss: completed system calls persist, so fsync placement is not decided here".into(),
            "kill granularity is the system call; a write interrupted midway is modelled only by the two truncation variants".into(),
            "strace injection counters are per thread: a worker thread reaching its k-th call first shadows the main thread's k-th call; the evidence counts the positions actually hit".into(),
        ],
        ..Default::default()
    };
    ctx.finish(cov);
}

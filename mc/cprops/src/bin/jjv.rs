//! The real `jj` command line, built from /repo's sources inside the harness workspace
//! (so that it shares the compiled jj-lib with the checks).
use jj_cli::cli_util::CliRunner;

fn main() -> std::process::ExitCode {
    CliRunner::init().version("0.44.0-verif").run().into()
}

//! C36 — expression parsers never crash.
//!
//! Bounded-exhaustive enumeration of inputs to the revset, fileset and template parsers
//! (including alias declaration parsing and alias expansion), every case executed by the real
//! entry points. The oracle is the statement: the call returns `Ok` or `Err`; a panic, an abort
//! or a stack overflow is a violation. A case that hits the CPU/time cap is neither a pass nor
//! a violation; it is listed under `capped`.
//!
//! Every shard runs in a child process (a pool of workers: this binary re-executed with
//! `__child <output file>`, fed one job at a time; a worker that dies is replaced), each job
//! on a fresh thread with an 8 MiB stack (the size of jj's main thread under the default `ulimit
//! -s`), under RLIMIT_CPU / RLIMIT_AS / a wall-clock watchdog, so that a stack overflow
//! (SIGABRT/SIGSEGV) or a hang is observed by the parent instead of killing the check.
//!
//! Families (per language):
//!  * tokens  — every string of <= L tokens over an alphabet with every operator and bracket of
//!              the grammar, identifiers, numbers, a string with an escape, an unterminated
//!              string, a lone backslash, 2- and 4-byte characters and NUL;
//!  * chars   — every string of <= Lc characters over a character alphabet built to form string
//!              escapes and multi-byte boundaries;
//!  * guided  — every builtin revset function x <= 2 arguments from an argument alphabet; every
//!              fileset pattern kind x every value of <= 3 characters over a path/glob alphabet;
//!              every string literal of <= 3 escape atoms;
//!  * decl    — every alias declaration of <= Ld tokens through `AliasesMap::insert`;
//!  * alias   — every set of <= 2 alias rules from a pool (recursive, mutually recursive,
//!              shadowing, broken definitions) x every input of <= 3 (thorough: 4) tokens;
//!  * ladder  — for every recursive production a ladder of nesting depths.

use std::collections::BTreeMap;
use std::collections::HashMap;
use std::io::Write as _;
use std::os::unix::process::CommandExt as _;
use std::os::unix::process::ExitStatusExt as _;
use std::path::Path;
use std::path::PathBuf;
use std::process::Command;
use std::process::Stdio;
use std::sync::Mutex;
use std::sync::atomic::AtomicU64;
use std::sync::atomic::Ordering;
use std::time::Duration;
use std::time::Instant;

use jj_cli::template_parser;
use jj_cli::template_parser::TemplateAliasesMap;
use jj_lib::fileset;
use jj_lib::fileset::FilesetAliasesMap;
use jj_lib::fileset::FilesetDiagnostics;
use jj_lib::fileset::FilesetParseContext;
use jj_lib::ref_name::RemoteName;
use jj_lib::ref_name::WorkspaceName;
use jj_lib::repo_path::RepoPathUiConverter;
use jj_lib::revset;
use jj_lib::revset::RevsetAliasesMap;
use jj_lib::revset::RevsetDiagnostics;
use jj_lib::revset::RevsetExtensions;
use jj_lib::revset::RevsetParseContext;
use jj_lib::revset::RevsetWorkspaceContext;
use rayon::prelude::*;
use serde_json::Value;
use serde_json::json;
use vcommon::Coverage;
use vcommon::Ctx;
use vcommon::Level;
use vcommon::catch;

const STACK_BYTES: usize = 8 << 20;
/// The first TOKEN_CORE tokens of every token alphabet form its core (used for the longest strings).
const TOKEN_CORE: usize = 14;
const ADDRESS_SPACE_CAP: u64 = 6 << 30;

// ------------------------------------------------------------------------------------------
// languages, entry points
// ------------------------------------------------------------------------------------------

#[derive(Clone, Copy, PartialEq, Eq, Debug, PartialOrd, Ord)]
enum Lang {
    Revset,
    Fileset,
    Template,
}

const LANGS: [Lang; 3] = [Lang::Revset, Lang::Fileset, Lang::Template];

impl Lang {
    fn name(self) -> &'static str {
        match self {
            Lang::Revset => "revset",
            Lang::Fileset => "fileset",
            Lang::Template => "template",
        }
    }
    fn from_name(s: &str) -> Lang {
        match s {
            "revset" => Lang::Revset,
            "fileset" => Lang::Fileset,
            "template" => Lang::Template,
            other => vcommon::machinery_failure(&format!("unknown language {other:?}")),
        }
    }
    fn entries(self) -> &'static [&'static str] {
        match self {
            Lang::Revset => &["parse_program", "parse", "parse_string_expression"],
            Lang::Fileset => &["parse", "parse_maybe_bare"],
            Lang::Template => &["parse_template", "parse"],
        }
    }
}

type Aliases = Vec<(String, String)>;

struct Env {
    revset_aliases: RevsetAliasesMap,
    fileset_aliases: FilesetAliasesMap,
    template_aliases: TemplateAliasesMap,
    extensions: RevsetExtensions,
    converter: RepoPathUiConverter,
    now: chrono::DateTime<chrono::FixedOffset>,
    /// declarations rejected by `insert` (they are simply not defined)
    rejected_decls: u64,
    insert_panics: Vec<String>,
}

impl Env {
    fn new(lang: Lang, aliases: &Aliases) -> Self {
        let mut env = Env {
            revset_aliases: RevsetAliasesMap::new(),
            fileset_aliases: FilesetAliasesMap::new(),
            template_aliases: TemplateAliasesMap::new(),
            extensions: RevsetExtensions::default(),
            converter: RepoPathUiConverter::Fs { cwd: PathBuf::from("/ws/cur"), base: PathBuf::from("/ws") },
            now: chrono::DateTime::parse_from_rfc3339("2026-01-02T03:04:05+00:00").unwrap(),
            rejected_decls: 0,
            insert_panics: vec![],
        };
        for (decl, defn) in aliases {
            match env.insert(lang, decl, defn) {
                Ok(true) => {}
                Ok(false) => env.rejected_decls += 1,
                Err(msg) => env.insert_panics.push(format!("insert({decl:?}): {msg}")),
            }
        }
        env
    }

    /// `Ok(accepted)`, `Err(panic message)`.
    fn insert(&mut self, lang: Lang, decl: &str, defn: &str) -> Result<bool, String> {
        catch(|| match lang {
            Lang::Revset => match self.revset_aliases.insert(decl, defn, None) {
                Ok(()) => true,
                Err(e) => {
                    let _ = e.to_string();
                    false
                }
            },
            Lang::Fileset => match self.fileset_aliases.insert(decl, defn, None) {
                Ok(()) => true,
                Err(e) => {
                    let _ = e.to_string();
                    false
                }
            },
            Lang::Template => match self.template_aliases.insert(decl, defn, None) {
                Ok(()) => true,
                Err(e) => {
                    let _ = e.to_string();
                    false
                }
            },
        })
    }
}

#[derive(Debug, Clone, PartialEq, Eq)]
enum Outcome {
    Ok,
    Err(bool), // true if the message mentions alias recursion
    Panic(String),
}

/// Runs one real entry point. `keep` leaks an `Ok` value instead of dropping it (ladder
/// cases: only the parse itself is judged, not the destructor of a deep tree).
fn run_entry(env: &Env, lang: Lang, entry: &str, text: &str, keep: bool) -> Outcome {
    fn finish<T, E: std::error::Error>(r: Result<T, E>, keep: bool) -> Result<(), bool> {
        match r {
            Ok(v) => {
                if keep {
                    std::mem::forget(v);
                }
                Ok(())
            }
            Err(e) => {
                // render the whole error chain, as the CLI does when it reports the error
                let mut msg = e.to_string();
                let mut source = e.source();
                while let Some(s) = source {
                    msg.push_str(": ");
                    msg.push_str(&s.to_string());
                    source = s.source();
                }
                if keep {
                    std::mem::forget(e);
                }
                Err(msg.contains("recursive"))
            }
        }
    }
    let r = catch(|| match (lang, entry) {
        (Lang::Revset, "parse_program") => finish(revset::parse_program(text), keep),
        (Lang::Revset, "parse") => {
            let workspace = RevsetWorkspaceContext {
                path_converter: &env.converter,
                workspace_name: WorkspaceName::DEFAULT,
            };
            let context = RevsetParseContext {
                aliases_map: &env.revset_aliases,
                local_variables: HashMap::new(),
                user_email: "test.user@example.com",
                date_pattern_context: env.now.into(),
                default_ignored_remote: Some(RemoteName::new("git")),
                fileset_aliases_map: &env.fileset_aliases,
                extensions: &env.extensions,
                workspace: Some(workspace),
            };
            finish(revset::parse(&mut RevsetDiagnostics::new(), text, &context), keep)
        }
        (Lang::Revset, "parse_string_expression") => {
            finish(revset::parse_string_expression(&mut RevsetDiagnostics::new(), text), keep)
        }
        (Lang::Fileset, "parse") => {
            let context =
                FilesetParseContext { aliases_map: &env.fileset_aliases, path_converter: &env.converter };
            finish(fileset::parse(&mut FilesetDiagnostics::new(), text, &context), keep)
        }
        (Lang::Fileset, "parse_maybe_bare") => {
            let context =
                FilesetParseContext { aliases_map: &env.fileset_aliases, path_converter: &env.converter };
            finish(fileset::parse_maybe_bare(&mut FilesetDiagnostics::new(), text, &context), keep)
        }
        (Lang::Template, "parse_template") => finish(template_parser::parse_template(text), keep),
        (Lang::Template, "parse") => finish(template_parser::parse(text, &env.template_aliases), keep),
        (l, e) => vcommon::machinery_failure(&format!("no entry {e} for {l:?}")),
    });
    match r {
        Ok(Ok(())) => Outcome::Ok,
        Ok(Err(recursive)) => Outcome::Err(recursive),
        Err(msg) => Outcome::Panic(msg),
    }
}

// ------------------------------------------------------------------------------------------
// alphabets
// ------------------------------------------------------------------------------------------

fn token_alphabet(lang: Lang) -> &'static [&'static str] {
    match lang {
        Lang::Revset => &[
            // core (first 14), then the rest
            "a", "\"s\\t\"", "(", ")", ",", "@", ":", "::", "-", "~", "|", "&", " ", "\"", //
            "all", "1", "\\", "'", "..", "+", "^", "=", "é", "😀", "\0",
        ],
        Lang::Fileset => &[
            "a", "\"s\\t\"", "(", ")", ",", "~", "|", "&", " ", ":", "\"", "*", "/", "..", //
            "all", "file", "\\", "'", "[", "]", ".", "-", "é", "😀", "\0",
        ],
        Lang::Template => &[
            "a", "1", "\"s\\t\"", "(", ")", ",", ".", "++", "-", "!", "||", "|", ":", " ", //
            "true", "9999999999999999999", "\"", "\\", "'", "+", "*", "==", ">=", "<", "=", "é", "😀", "\0",
        ],
    }
}

const CHAR_ALPHABET: &[&str] = &["\"", "\\", "x", "4", "f", "e", "'", "é", "😀", "\0", "a", "(", ":", " ", "\n"];

const DECL_ALPHABET: &[&str] = &["a", "f", "x", "(", ")", ",", ":", " ", "1", "-", "é", "true", "/"];

fn alias_pool(lang: Lang) -> Vec<(&'static str, &'static str)> {
    match lang {
        Lang::Revset => vec![
            ("a", "b"),
            ("a", "a"),
            ("b", "a"),
            ("f(x)", "x|f(x)"),
            ("f(x)", "g(x)"),
            ("g(x)", "f(x)"),
            ("f(x)", "x"),
            ("f()", "a"),
            ("f(x,y)", "x&y"),
            ("p:x", "x"),
            ("p:x", "p:x"),
            ("a", "("),
            ("f(x)", "\""),
            ("x", "a"),
            ("all()", "none()"),
            ("f(a)", "a"),
            ("a", "f(a)"),
        ],
        Lang::Fileset => vec![
            ("a", "b"),
            ("a", "a"),
            ("b", "a"),
            ("f(x)", "x|f(x)"),
            ("f(x)", "g(x)"),
            ("g(x)", "f(x)"),
            ("f(x)", "x"),
            ("f()", "a"),
            ("f(x,y)", "x&y"),
            ("p:x", "x"),
            ("p:x", "p:x"),
            ("a", "("),
            ("f(x)", "\""),
            ("x", "a"),
            ("all()", "none()"),
            ("file:x", "x"),
            ("a", "f(a)"),
        ],
        Lang::Template => vec![
            ("a", "b"),
            ("a", "a"),
            ("b", "a"),
            ("f(x)", "x ++ f(x)"),
            ("f(x)", "g(x)"),
            ("g(x)", "f(x)"),
            ("f(x)", "x"),
            ("f()", "a"),
            ("f(x,y)", "x ++ y"),
            ("p:x", "x"),
            ("p:x", "p:x"),
            ("a", "("),
            ("f(x)", "\""),
            ("x", "a"),
            ("f(x)", "|y| x"),
            ("f(x)", "x.m(x)"),
            ("a", "f(a)"),
        ],
    }
}

fn alias_input_alphabet(lang: Lang) -> &'static [&'static str] {
    match lang {
        // the first 8 are the quick tier's input alphabet
        Lang::Revset => &["a", "b", "x", "f(", "g(", "p:", ")", ",", "|", "all()", "~", "\"s\"", " "],
        Lang::Fileset => &["a", "b", "x", "f(", "g(", "p:", ")", ",", "|", "all()", "~", "\"s\"", "file:"],
        Lang::Template => &["a", "b", "x", "f(", "g(", "p:", ")", ",", "++", ".m(", "-", "\"s\"", "|x|"],
    }
}

/// Every subset of <= 2 rules of the pool, as index lists.
fn alias_sets(lang: Lang) -> Vec<Vec<usize>> {
    let n = alias_pool(lang).len();
    let mut out = vec![vec![]];
    for i in 0..n {
        out.push(vec![i]);
    }
    for i in 0..n {
        for j in (i + 1)..n {
            out.push(vec![i, j]);
        }
    }
    out
}

const REVSET_FUNCTIONS: &[&str] = &[
    "parents", "children", "ancestors", "descendants", "first_parent", "first_ancestors", "connected",
    "reachable", "none", "all", "working_copies", "heads", "roots", "visible_heads", "root", "change_id",
    "commit_id", "bookmarks", "remote_bookmarks", "tags", "remote_tags", "tracked_remote_tags",
    "untracked_remote_tags", "latest", "fork_point", "merge_point", "bisect", "exactly", "merges", "forks",
    "description", "subject", "author", "author_name", "author_email", "author_date", "signed", "mine",
    "committer", "committer_name", "committer_email", "committer_date", "empty", "files", "diff_lines",
    "diff_lines_added", "diff_lines_removed", "diff_contains", "conflicts", "divergent", "present",
    "at_operation", "coalesce", "nosuch",
];

const REVSET_ARGS: &[&str] = &[
    "a", "\"s\"", "1", "-1", "99999999999999999999", "x:y", "exact:\"a\"", "glob:\"[a\"", "regex:\"(\"", "a|b",
    "~a", "@", "remote=a", "\"\"", "after:\"yesterday\"", "after:\"x\"", "\"../x\"", "all()", "a@b", "''",
    "depth=1", "\"-1\"",
];

const FILESET_KINDS: &[&str] = &[
    "cwd", "cwd-file", "file", "cwd-glob", "glob", "cwd-glob-i", "glob-i", "cwd-prefix-glob", "prefix-glob",
    "cwd-prefix-glob-i", "prefix-glob-i", "root", "root-file", "root-glob", "root-glob-i", "root-prefix-glob",
    "root-prefix-glob-i", "nosuch",
];

const FILESET_VALUE_CHARS: &[&str] = &["*", "/", "..", "a", ".", "[", "{", "\\", "]", "}", "?", "é", ",", "!", "-"];

const ESCAPE_ATOMS: &[&str] = &[
    "\\t", "\\r", "\\n", "\\0", "\\e", "\\x41", "\\xé", "\\\"", "\\\\", "\\x4", "\\", "\\q", "a", "é", "😀",
    "\\x", "\\xff", "\\u",
];

// ------------------------------------------------------------------------------------------
// ladders
// ------------------------------------------------------------------------------------------

fn productions(lang: Lang) -> &'static [&'static str] {
    match lang {
        Lang::Revset => &[
            "parentheses",
            "prefix-negate",
            "postfix-parents",
            "postfix-children",
            "infix-intersection",
            "infix-difference",
            "infix-union",
            "function-nesting",
            "function-arguments",
            "pattern-nesting",
            "string-length",
            "string-escapes",
            "alias-chain",
        ],
        Lang::Fileset => &[
            "parentheses",
            "prefix-negate",
            "infix-intersection",
            "infix-difference",
            "infix-union",
            "function-nesting",
            "function-arguments",
            "pattern-nesting",
            "string-length",
            "string-escapes",
            "alias-chain",
        ],
        Lang::Template => &[
            "parentheses",
            "prefix-not",
            "prefix-negate",
            "infix-add",
            "infix-logical-or",
            "concatenation",
            "function-nesting",
            "function-arguments",
            "method-chain",
            "lambda-nesting",
            "pattern-nesting",
            "string-length",
            "string-escapes",
            "alias-chain",
        ],
    }
}

/// The input (and alias rules) of rung `depth` of a production.
fn ladder_case(lang: Lang, production: &str, depth: usize) -> (String, Aliases) {
    let n = depth;
    let rep = |s: &str, n: usize| s.repeat(n);
    let mut aliases = vec![];
    let text = match (lang, production) {
        (_, "parentheses") => format!("{}a{}", rep("(", n), rep(")", n)),
        (Lang::Revset | Lang::Fileset, "prefix-negate") => format!("{}a", rep("~", n)),
        (Lang::Template, "prefix-negate") => format!("{}1", rep("-", n)),
        (Lang::Template, "prefix-not") => format!("{}a", rep("!", n)),
        (Lang::Revset, "postfix-parents") => format!("a{}", rep("-", n)),
        (Lang::Revset, "postfix-children") => format!("a{}", rep("+", n)),
        (Lang::Revset | Lang::Fileset, "infix-intersection") => format!("a{}", rep("&a", n)),
        (Lang::Revset | Lang::Fileset, "infix-difference") => format!("a{}", rep("~a", n)),
        (Lang::Revset | Lang::Fileset, "infix-union") => format!("a{}", rep("|a", n)),
        (Lang::Template, "infix-add") => format!("1{}", rep("+1", n)),
        (Lang::Template, "infix-logical-or") => format!("a{}", rep("||a", n)),
        (Lang::Template, "concatenation") => format!("a{}", rep("++a", n)),
        (Lang::Revset, "function-nesting") => format!("{}a{}", rep("parents(", n), rep(")", n)),
        (_, "function-nesting") => format!("{}a{}", rep("f(", n), rep(")", n)),
        (_, "function-arguments") => format!("f({})", rep("a,", n)),
        (Lang::Template, "method-chain") => format!("a{}", rep(".f()", n)),
        (Lang::Template, "lambda-nesting") => format!("{}a", rep("|x|", n)),
        (_, "pattern-nesting") => format!("{}a", rep("x:", n)),
        (_, "string-length") => format!("\"{}\"", rep("a", n)),
        (_, "string-escapes") => format!("\"{}\"", rep("\\n", n)),
        (_, "alias-chain") => {
            for i in 0..n {
                aliases.push((format!("a{i}"), format!("a{}", i + 1)));
            }
            "a0".to_string()
        }
        (l, p) => vcommon::machinery_failure(&format!("no production {p} for {l:?}")),
    };
    (text, aliases)
}

const RUNGS: &[usize] = &[
    1, 2, 3, 4, 5, 6, 7, 8, 10, 12, 14, 16, 24, 32, 48, 64, 96, 128, 192, 256, 384, 512, 768, 1024, 1536, 2048,
    3072, 4096, 6144, 8192, 12288, 16384, 24576, 32768, 49152, 65536,
];

// ------------------------------------------------------------------------------------------
// child side
// ------------------------------------------------------------------------------------------

/// Calls `f` with every concatenation `prefix · suffix`, suffix of 0..=extra tokens. `f` gets the
/// token indices and the text.
fn for_each_string(alphabet: &[&str], prefix: &[usize], extra: usize, mut f: impl FnMut(&[usize], &str)) {
    let mut idx: Vec<usize> = prefix.to_vec();
    let mut text = String::new();
    for len in 0..=extra {
        idx.truncate(prefix.len());
        idx.resize(prefix.len() + len, 0);
        let dims = vec![alphabet.len(); len];
        vcommon::enumerate::odometer(&dims, |t| {
            idx[prefix.len()..].copy_from_slice(t);
            text.clear();
            for &i in idx.iter() {
                text.push_str(alphabet[i]);
            }
            f(&idx, &text);
            true
        });
    }
}

/// Greedy longest-match tokenisation; `None` if the text is not a concatenation found greedily.
fn greedy_tokens(alphabet: &[&str], text: &str) -> Option<Vec<usize>> {
    let mut out = vec![];
    let mut rest = text;
    while !rest.is_empty() {
        let (i, tok) = alphabet
            .iter()
            .enumerate()
            .filter(|(_, t)| rest.starts_with(**t))
            .max_by_key(|(i, t)| (t.len(), usize::MAX - *i))?;
        out.push(i);
        rest = &rest[tok.len()..];
    }
    Some(out)
}

#[derive(Default)]
struct Tally {
    cases: u64,
    evals: u64,
    ok: BTreeMap<String, u64>,
    err: BTreeMap<String, u64>,
    recursion_errors: u64,
    nontrivial: u64,
    panics: Vec<Value>,
    panic_count: u64,
    samples: Vec<Value>,
}

impl Tally {
    fn to_json(&self) -> Value {
        json!({
            "cases": self.cases, "evals": self.evals, "ok": self.ok, "err": self.err,
            "recursion_errors": self.recursion_errors, "nontrivial": self.nontrivial,
            "panics": self.panics, "panic_count": self.panic_count, "samples": self.samples,
        })
    }
}

struct ChildOut {
    file: std::fs::File,
    trace: bool,
}

impl ChildOut {
    fn line(&mut self, s: &str) {
        let _ = self.file.write_all(s.as_bytes());
        let _ = self.file.write_all(b"\n");
    }
    fn trace(&mut self, text: &str) {
        if self.trace {
            self.line(&format!("T {}", Value::String(text.to_owned())));
        }
    }
}

/// Runs all entries of `lang` on `text`; returns true if at least one entry returned Ok.
fn run_case(env: &Env, lang: Lang, text: &str, aliases: &Aliases, tally: &mut Tally, out: &mut ChildOut) -> bool {
    out.trace(text);
    tally.cases += 1;
    let mut any_ok = false;
    // With alias rules only the entry points that expand aliases are of interest.
    let entries: &[&str] = match (lang, aliases.is_empty()) {
        (_, true) => lang.entries(),
        (Lang::Revset, false) => &["parse"],
        (Lang::Fileset, false) => &["parse", "parse_maybe_bare"],
        (Lang::Template, false) => &["parse"],
    };
    for entry in entries {
        tally.evals += 1;
        match run_entry(env, lang, entry, text, false) {
            Outcome::Ok => {
                any_ok = true;
                *tally.ok.entry(entry.to_string()).or_default() += 1;
            }
            Outcome::Err(recursive) => {
                *tally.err.entry(entry.to_string()).or_default() += 1;
                if recursive {
                    tally.recursion_errors += 1;
                }
            }
            Outcome::Panic(msg) => {
                tally.panic_count += 1;
                if tally.panics.len() < 40 {
                    tally.panics.push(json!({"lang": lang.name(), "entry": entry, "text": text, "aliases": aliases, "message": msg}));
                }
            }
        }
    }
    any_ok
}

fn aliases_from(v: &Value) -> Aliases {
    v.as_array()
        .map(|a| {
            a.iter()
                .map(|p| (p[0].as_str().unwrap_or("").to_owned(), p[1].as_str().unwrap_or("").to_owned()))
                .collect()
        })
        .unwrap_or_default()
}

/// Per-case CPU cap inside a child that runs several cases: soft RLIMIT_CPU = CPU used so far
/// + cap (SIGXCPU kills the process when the case exceeds it).
fn arm_cpu_limit(cap_s: u64) {
    // SAFETY: plain libc calls on zero-initialised structs.
    unsafe {
        let mut ru: libc::rusage = std::mem::zeroed();
        libc::getrusage(libc::RUSAGE_SELF, &mut ru);
        let used = (ru.ru_utime.tv_sec + ru.ru_stime.tv_sec) as u64 + 1;
        let mut lim: libc::rlimit = std::mem::zeroed();
        libc::getrlimit(libc::RLIMIT_CPU, &mut lim);
        lim.rlim_cur = (used + cap_s).min(lim.rlim_max);
        libc::setrlimit(libc::RLIMIT_CPU, &lim);
    }
}

fn process_cpu_ms() -> u64 {
    // SAFETY: plain libc call on a zero-initialised struct.
    unsafe {
        let mut ru: libc::rusage = std::mem::zeroed();
        libc::getrusage(libc::RUSAGE_SELF, &mut ru);
        (ru.ru_utime.tv_sec + ru.ru_stime.tv_sec) as u64 * 1000 + (ru.ru_utime.tv_usec + ru.ru_stime.tv_usec) as u64 / 1000
    }
}

fn child_body(spec: &Value, out: &mut ChildOut) {
    let cpu0 = process_cpu_ms();
    let lang = Lang::from_name(spec["lang"].as_str().unwrap_or(""));
    let mode = spec["mode"].as_str().unwrap_or("");
    let mut tally = Tally::default();
    match mode {
        "enum" => {
            let family = spec["family"].as_str().unwrap_or("");
            let alphabet: &[&str] = match family {
                "tokens" => token_alphabet(lang),
                "chars" => CHAR_ALPHABET,
                "alias" => alias_input_alphabet(lang),
                "decl" => DECL_ALPHABET,
                other => vcommon::machinery_failure(&format!("unknown family {other}")),
            };
            let limit = spec["limit"].as_u64().map(|l| l as usize).unwrap_or(alphabet.len()).min(alphabet.len());
            let alphabet = &alphabet[..limit];
            let min_len = spec["min_len"].as_u64().unwrap_or(0) as usize;
            let prefix: Vec<usize> = serde_json::from_value(spec["prefix"].clone()).unwrap_or_default();
            let extra = spec["extra"].as_u64().unwrap_or(0) as usize;
            let alias_sets: Vec<Aliases> = match spec["alias_sets"].as_array() {
                Some(sets) => sets.iter().map(aliases_from).collect(),
                None => vec![aliases_from(&spec["aliases"])],
            };
            if family == "decl" {
                let mut env = Env::new(lang, &vec![]);
                for_each_string(alphabet, &prefix, extra, |idx, text| {
                    if idx.len() < min_len {
                        return;
                    }
                    out.trace(text);
                    tally.cases += 1;
                    tally.evals += 1;
                    match env.insert(lang, text, "a") {
                        Ok(true) => {
                            *tally.ok.entry("insert".into()).or_default() += 1;
                            if tally.samples.len() < 3 {
                                tally.samples.push(json!({"family": "decl", "lang": lang.name(), "declaration": text}));
                            }
                        }
                        Ok(false) => *tally.err.entry("insert".into()).or_default() += 1,
                        Err(msg) => {
                            tally.panic_count += 1;
                            if tally.panics.len() < 40 {
                                tally.panics.push(json!({"lang": lang.name(), "entry": "insert", "text": text, "aliases": [], "message": msg}));
                            }
                        }
                    }
                });
            } else {
                for aliases in &alias_sets {
                    if out.trace {
                        out.line(&format!("A {}", json!(aliases)));
                    }
                    let env = Env::new(lang, aliases);
                    for p in &env.insert_panics {
                        tally.panic_count += 1;
                        tally.panics.push(json!({"lang": lang.name(), "entry": "insert", "text": "", "aliases": aliases, "message": p}));
                    }
                    let alias_names: Vec<String> = aliases
                        .iter()
                        .map(|(d, _)| d.split(['(', ':']).next().unwrap_or("").to_owned())
                        .collect();
                    let mut set_samples = 0;
                    for_each_string(alphabet, &prefix, extra, |idx, text| {
                        if idx.len() < min_len {
                            return;
                        }
                        let any_ok = run_case(&env, lang, text, aliases, &mut tally, out);
                        let canonical = family != "chars" && greedy_tokens(alphabet, text).as_deref() == Some(idx);
                        let nontrivial = match family {
                            "tokens" => canonical && any_ok,
                            "alias" => {
                                canonical
                                    && !aliases.is_empty()
                                    && idx.iter().any(|&i| {
                                        let t = alphabet[i].trim_end_matches(['(', ':']);
                                        alias_names.iter().any(|n| n == t)
                                    })
                            }
                            _ => false,
                        };
                        if nontrivial {
                            tally.nontrivial += 1;
                            if set_samples < 1 && tally.samples.len() < 2 && idx.len() >= 3 && any_ok {
                                set_samples += 1;
                                tally.samples.push(json!({"family": family, "lang": lang.name(), "text": text, "aliases": aliases}));
                            }
                        }
                    });
                }
            }
        }
        "guided" => {
            let group = spec["group"].as_str().unwrap_or("");
            let index = spec["index"].as_u64().unwrap_or(0) as usize;
            let indices: Vec<usize> = serde_json::from_value(spec["indices"].clone()).unwrap_or_default();
            let env = Env::new(lang, &vec![]);
            let none = vec![];
            match (lang, group) {
                (Lang::Revset, "functions") => {
                    for &index in &indices {
                        let name = REVSET_FUNCTIONS[index];
                        let in_token_alphabet = token_alphabet(lang).contains(&name);
                        for_each_string(REVSET_ARGS, &[], 2, |idx, _| {
                            let args: Vec<&str> = idx.iter().map(|&i| REVSET_ARGS[i]).collect();
                            let text = format!("{name}({})", args.join(", "));
                            let any_ok = run_case(&env, lang, &text, &none, &mut tally, out);
                            if any_ok && !in_token_alphabet {
                                tally.nontrivial += 1;
                                if tally.samples.is_empty() && idx.len() == 2 {
                                    tally.samples.push(json!({"family": "guided", "lang": "revset", "text": text}));
                                }
                            }
                        });
                    }
                }
                (Lang::Fileset, "patterns") => {
                    let kind = FILESET_KINDS[index];
                    let limit = spec["limit"].as_u64().map(|l| l as usize).unwrap_or(FILESET_VALUE_CHARS.len());
                    for_each_string(&FILESET_VALUE_CHARS[..limit.min(FILESET_VALUE_CHARS.len())], &[], 3, |_idx, value| {
                        let quoted = format!("{kind}:\"{}\"", value.replace('\\', "\\\\"));
                        let bare = format!("{kind}:{value}");
                        let a = run_case(&env, lang, &quoted, &none, &mut tally, out);
                        let b = run_case(&env, lang, &bare, &none, &mut tally, out);
                        if a {
                            tally.nontrivial += 1;
                        }
                        if b && bare != quoted {
                            tally.nontrivial += 1;
                        }
                        if a && tally.samples.is_empty() && value.len() >= 3 {
                            tally.samples.push(json!({"family": "guided", "lang": "fileset", "text": quoted}));
                        }
                    });
                }
                (_, "escapes") => {
                    for_each_string(ESCAPE_ATOMS, &[], 3, |idx, body| {
                        let text = format!("\"{body}\"");
                        let any_ok = run_case(&env, lang, &text, &none, &mut tally, out);
                        if any_ok && greedy_tokens(ESCAPE_ATOMS, body).as_deref() == Some(idx) {
                            tally.nontrivial += 1;
                        }
                    });
                }
                (l, g) => vcommon::machinery_failure(&format!("no guided group {g} for {l:?}")),
            }
        }
        "single" => {
            // one literal input, or a list of ladder depths of one production (ascending)
            let production = spec["production"].as_str().unwrap_or("");
            let depths: Vec<usize> = match spec["depths"].as_array() {
                Some(a) => a.iter().filter_map(|d| d.as_u64().map(|d| d as usize)).collect(),
                None => vec![spec["depth"].as_u64().unwrap_or(0) as usize],
            };
            let case_cap_s = spec["case_cap_s"].as_u64().unwrap_or(30);
            let entries: Vec<String> = match spec["entries"].as_array() {
                Some(a) if !a.is_empty() => a.iter().filter_map(|e| e.as_str().map(str::to_owned)).collect(),
                _ => lang.entries().iter().map(|s| s.to_string()).collect(),
            };
            for depth in depths {
                let (text, aliases) = match spec["text"].as_str() {
                    Some(t) => (t.to_owned(), aliases_from(&spec["aliases"])),
                    None => ladder_case(lang, production, depth),
                };
                arm_cpu_limit(case_cap_s);
                out.line(&format!("G {depth}"));
                let env = Env::new(lang, &aliases);
                for p in &env.insert_panics {
                    out.line(&format!("D insert panic {}", Value::String(p.clone())));
                }
                for entry in &entries {
                    out.line(&format!("S {entry}"));
                    let t0 = Instant::now();
                    let o = run_entry(&env, lang, entry, &text, true);
                    let ms = t0.elapsed().as_millis();
                    match o {
                        Outcome::Ok => out.line(&format!("D {entry} ok {ms}")),
                        Outcome::Err(_) => out.line(&format!("D {entry} err {ms}")),
                        Outcome::Panic(m) => out.line(&format!("D {entry} panic {}", Value::String(m))),
                    }
                }
                out.line(&format!("E {depth}"));
                // Dropping a deep alias map / environment is not part of the parse.
                std::mem::forget(env);
            }
        }
        other => vcommon::machinery_failure(&format!("unknown child mode {other:?}")),
    }
    let mut result = tally.to_json();
    result["cpu_ms"] = json!(process_cpu_ms() - cpu0);
    out.line(&format!("R {result}"));
}

/// Worker process: reads one job spec (a JSON line) at a time from stdin, runs it on a fresh
/// thread with an 8 MiB stack and appends the job's output lines to `out_path`. A job that
/// overflows the stack or exceeds its CPU cap kills the whole worker; the parent observes the
/// signal, reads how far the job got, and starts a new worker for the next job.
fn child_main(out_path: &str) -> ! {
    vcommon::silence_panics();
    let stdin = std::io::stdin();
    let mut line = String::new();
    loop {
        line.clear();
        match stdin.read_line(&mut line) {
            Ok(0) | Err(_) => std::process::exit(0),
            Ok(_) => {}
        }
        if line.trim().is_empty() {
            continue;
        }
        let spec: Value = serde_json::from_str(&line)
            .unwrap_or_else(|e| vcommon::machinery_failure(&format!("worker: bad job spec: {e}")));
        let trace = spec["trace"].as_bool().unwrap_or(false);
        let out_path = out_path.to_owned();
        arm_cpu_limit(spec["cpu_cap_s"].as_u64().unwrap_or(60));
        let handle = std::thread::Builder::new()
            .name("c36-worker".into())
            .stack_size(STACK_BYTES)
            .spawn(move || {
                let file = std::fs::OpenOptions::new()
                    .create(true)
                    .append(true)
                    .open(&out_path)
                    .unwrap_or_else(|e| vcommon::machinery_failure(&format!("cannot open {out_path}: {e}")));
                let mut out = ChildOut { file, trace };
                child_body(&spec, &mut out);
            })
            .unwrap_or_else(|e| vcommon::machinery_failure(&format!("cannot spawn worker thread: {e}")));
        if handle.join().is_err() {
            std::process::exit(3);
        }
    }
}

// ------------------------------------------------------------------------------------------
// parent side
// ------------------------------------------------------------------------------------------

#[derive(Debug, Clone, PartialEq, Eq)]
enum Exit {
    Clean,
    StackOverflow,
    Capped(String),
    Crash(String),
}

struct ChildRun {
    exit: Exit,
    lines: Vec<String>,
    wall_ms: u128,
}

static CHILD_SEQ: AtomicU64 = AtomicU64::new(0);
static CHILDREN: AtomicU64 = AtomicU64::new(0);
static JOBS: AtomicU64 = AtomicU64::new(0);

struct Worker {
    child: std::process::Child,
    stdin: std::process::ChildStdin,
    out_path: PathBuf,
    err_path: PathBuf,
    offset: u64,
}

static IDLE_WORKERS: Mutex<Vec<Worker>> = Mutex::new(Vec::new());

impl Worker {
    fn spawn(scratch: &Path) -> Worker {
        let seq = CHILD_SEQ.fetch_add(1, Ordering::Relaxed);
        CHILDREN.fetch_add(1, Ordering::Relaxed);
        let out_path = scratch.join(format!("{seq}.out"));
        let err_path = scratch.join(format!("{seq}.err"));
        let _ = std::fs::remove_file(&out_path);
        let err_file = std::fs::File::create(&err_path)
            .unwrap_or_else(|e| vcommon::machinery_failure(&format!("cannot create stderr file: {e}")));
        let exe =
            std::env::current_exe().unwrap_or_else(|e| vcommon::machinery_failure(&format!("current_exe: {e}")));
        let mut cmd = Command::new(exe);
        cmd.arg("__child").arg(&out_path).stdin(Stdio::piped()).stdout(Stdio::null()).stderr(Stdio::from(err_file));
        // SAFETY: only async-signal-safe calls (setrlimit, prctl) between fork and exec.
        unsafe {
            cmd.pre_exec(move || {
                // the worker lowers its own soft CPU limit per job / per case
                let cpu = libc::rlimit { rlim_cur: 6 * 3600, rlim_max: 6 * 3600 };
                libc::setrlimit(libc::RLIMIT_CPU, &cpu);
                let mem = libc::rlimit { rlim_cur: ADDRESS_SPACE_CAP, rlim_max: ADDRESS_SPACE_CAP };
                libc::setrlimit(libc::RLIMIT_AS, &mem);
                let core = libc::rlimit { rlim_cur: 0, rlim_max: 0 };
                libc::setrlimit(libc::RLIMIT_CORE, &core);
                // never outlive the check
                libc::prctl(libc::PR_SET_PDEATHSIG, libc::SIGKILL);
                Ok(())
            });
        }
        let mut child =
            cmd.spawn().unwrap_or_else(|e| vcommon::machinery_failure(&format!("cannot spawn worker: {e}")));
        let stdin = child.stdin.take().unwrap();
        Worker { child, stdin, out_path, err_path, offset: 0 }
    }

    fn discard(mut self) {
        let _ = self.child.kill();
        let _ = self.child.wait();
        let _ = std::fs::remove_file(&self.out_path);
        let _ = std::fs::remove_file(&self.err_path);
    }
}

fn shutdown_workers() {
    let workers: Vec<Worker> = std::mem::take(&mut *IDLE_WORKERS.lock().unwrap());
    for w in workers {
        w.discard();
    }
}

/// Runs one job in a worker process. `cases`: number of separately capped cases of the job (1
/// for an enumeration shard, whose cap covers the whole shard; n for a ladder job, which
/// re-arms its soft CPU limit before every case and is watched for *progress* instead of total
/// wall time).
fn run_child(scratch: &Path, mut spec: Value, cpu_cap_s: u64, cases: u64) -> ChildRun {
    JOBS.fetch_add(1, Ordering::Relaxed);
    // a traced re-run writes a line per case: it is watched for progress as well
    let per_case = cases > 1 || spec["mode"] == "single" || spec["trace"] == true;
    spec["cpu_cap_s"] = json!(cpu_cap_s);
    let mut worker = IDLE_WORKERS.lock().unwrap().pop().unwrap_or_else(|| Worker::spawn(scratch));
    let t0 = Instant::now();
    let mut line = serde_json::to_string(&spec).unwrap();
    line.push('\n');
    if worker.stdin.write_all(line.as_bytes()).and_then(|_| worker.stdin.flush()).is_err() {
        vcommon::machinery_failure("cannot send a job to a worker process");
    }
    let wall_cap = Duration::from_secs(cpu_cap_s * 8 + 30);
    let mut killed_by_watchdog = false;
    let mut last_progress = Instant::now();
    let mut last_len = worker.offset;
    let read_from = |w: &Worker, from: u64| -> String {
        use std::io::Read as _;
        use std::io::Seek as _;
        let mut buf = Vec::new();
        if let Ok(mut f) = std::fs::File::open(&w.out_path) {
            if f.seek(std::io::SeekFrom::Start(from)).is_ok() {
                let _ = f.read_to_end(&mut buf);
            }
        }
        String::from_utf8_lossy(&buf).into_owned()
    };
    let read_new = |w: &Worker| -> String { read_from(w, w.offset) };
    // `Some(status)` if the worker died, `None` if the job finished and the worker lives on
    let status = loop {
        match worker.child.try_wait() {
            Ok(Some(st)) => break Some(st),
            Ok(None) => {}
            Err(e) => vcommon::machinery_failure(&format!("try_wait: {e}")),
        }
        let len = std::fs::metadata(&worker.out_path).map(|m| m.len()).unwrap_or(0);
        if len != last_len {
            last_len = len;
            last_progress = Instant::now();
            // only the tail is needed to see the job's final `R` line
            let tail = read_from(&worker, worker.offset.max(len.saturating_sub(1 << 18)));
            if tail.ends_with('\n') && tail.lines().last().is_some_and(|l| l.starts_with("R ")) {
                break None;
            }
        }
        let waited = if per_case { last_progress.elapsed() } else { t0.elapsed() };
        if waited > wall_cap {
            let _ = worker.child.kill();
            killed_by_watchdog = true;
            break Some(
                worker.child.wait().unwrap_or_else(|e| vcommon::machinery_failure(&format!("wait: {e}"))),
            );
        }
        let el = t0.elapsed().as_millis();
        std::thread::sleep(Duration::from_millis(if el < 20 { 1 } else if el < 1000 { 4 } else { 25 }));
    };
    let wall_ms = t0.elapsed().as_millis();
    let stdout = read_new(&worker);
    let lines: Vec<String> = stdout.lines().map(str::to_owned).collect();
    let has_result = stdout.ends_with('\n') && lines.last().is_some_and(|l| l.starts_with("R "));
    let Some(status) = status else {
        worker.offset = std::fs::metadata(&worker.out_path).map(|m| m.len()).unwrap_or(0);
        IDLE_WORKERS.lock().unwrap().push(worker);
        return ChildRun { exit: Exit::Clean, lines, wall_ms };
    };
    let stderr = String::from_utf8_lossy(&std::fs::read(&worker.err_path).unwrap_or_default()).into_owned();
    worker.discard();
    let exit = if killed_by_watchdog {
        Exit::Capped(format!("no progress for {} s (wall clock)", wall_cap.as_secs()))
    } else if let Some(code) = status.code() {
        vcommon::machinery_failure(&format!(
            "worker exited with code {code} in the middle of a job (result line: {has_result}); stderr: {}",
            stderr.chars().take(600).collect::<String>()
        ));
    } else {
        let sig = status.signal().unwrap_or(0);
        if stderr.contains("has overflowed its stack") {
            Exit::StackOverflow
        } else if sig == libc::SIGXCPU || sig == libc::SIGKILL {
            Exit::Capped(format!("CPU cap {cpu_cap_s} s (signal {sig})"))
        } else if stderr.contains("memory allocation of") {
            Exit::Capped(format!("address-space cap {} GiB", ADDRESS_SPACE_CAP >> 30))
        } else {
            Exit::Crash(format!(
                "signal {sig}; stderr: {}",
                stderr.chars().take(300).collect::<String>().replace('\n', " | ")
            ))
        }
    };
    ChildRun { exit, lines, wall_ms }
}

fn result_of(run: &ChildRun) -> Value {
    run.lines
        .last()
        .and_then(|l| l.strip_prefix("R "))
        .and_then(|j| serde_json::from_str(j).ok())
        .unwrap_or(Value::Null)
}

/// Outcome of one `single` child (ladder rungs of one production in ascending order, or one
/// literal input for a replay).
#[derive(Debug, Clone)]
struct SingleResult {
    exit: Exit,
    /// depths whose entries all returned
    completed: Vec<usize>,
    /// depth and entry in progress when the child died
    in_progress_depth: Option<usize>,
    in_progress_entry: Option<String>,
    /// (depth, entry, "ok"|"err"|"panic", detail)
    done: Vec<(usize, String, String, String)>,
    wall_ms: u128,
    cpu_ms: u64,
}

fn run_single(scratch: &Path, spec: Value, cpu_cap_s: u64) -> SingleResult {
    let cases = spec["depths"].as_array().map(|a| a.len() as u64).unwrap_or(1).max(1);
    let run = run_child(scratch, spec, cpu_cap_s, cases);
    let mut completed = vec![];
    let mut in_progress_depth = None;
    let mut in_progress_entry = None;
    let mut done = vec![];
    for l in &run.lines {
        if let Some(d) = l.strip_prefix("G ") {
            in_progress_depth = d.parse::<usize>().ok();
            in_progress_entry = None;
        } else if let Some(d) = l.strip_prefix("E ") {
            if let Ok(d) = d.parse::<usize>() {
                completed.push(d);
            }
            in_progress_depth = None;
            in_progress_entry = None;
        } else if let Some(e) = l.strip_prefix("S ") {
            in_progress_entry = Some(e.to_owned());
        } else if let Some(rest) = l.strip_prefix("D ") {
            let mut it = rest.splitn(3, ' ');
            let e = it.next().unwrap_or("").to_owned();
            let kind = it.next().unwrap_or("").to_owned();
            let detail = it.next().unwrap_or("").to_owned();
            done.push((in_progress_depth.unwrap_or(0), e, kind, detail));
            in_progress_entry = None;
        }
    }
    let cpu_ms = result_of(&run)["cpu_ms"].as_u64().unwrap_or(0);
    SingleResult { exit: run.exit, completed, in_progress_depth, in_progress_entry, done, wall_ms: run.wall_ms, cpu_ms }
}

fn crash_kind(exit: &Exit) -> Option<&'static str> {
    match exit {
        Exit::StackOverflow => Some("stack-overflow"),
        Exit::Crash(_) => Some("crash"),
        _ => None,
    }
}

struct Shared<'a> {
    ctx: &'a Ctx,
    child_ms: Mutex<BTreeMap<String, u64>>,
    child_cpu_ms: Mutex<BTreeMap<String, u64>>,
    capped: Mutex<Vec<Value>>,
    totals: Mutex<BTreeMap<String, Value>>,
    samples: Mutex<Vec<Value>>,
    evals: AtomicU64,
    cases: AtomicU64,
    nontrivial: AtomicU64,
    panics: AtomicU64,
    recursion_errors: AtomicU64,
}

impl Shared<'_> {
    fn add_tally(&self, key: &str, r: &Value) {
        *self.child_cpu_ms.lock().unwrap().entry(key.to_owned()).or_default() += r["cpu_ms"].as_u64().unwrap_or(0);
        self.evals.fetch_add(r["evals"].as_u64().unwrap_or(0), Ordering::Relaxed);
        self.cases.fetch_add(r["cases"].as_u64().unwrap_or(0), Ordering::Relaxed);
        self.nontrivial.fetch_add(r["nontrivial"].as_u64().unwrap_or(0), Ordering::Relaxed);
        self.panics.fetch_add(r["panic_count"].as_u64().unwrap_or(0), Ordering::Relaxed);
        self.recursion_errors.fetch_add(r["recursion_errors"].as_u64().unwrap_or(0), Ordering::Relaxed);
        let mut totals = self.totals.lock().unwrap();
        let slot = totals.entry(key.to_owned()).or_insert_with(|| json!({"cases": 0, "ok": {}, "err": {}}));
        slot["cases"] = json!(slot["cases"].as_u64().unwrap_or(0) + r["cases"].as_u64().unwrap_or(0));
        for which in ["ok", "err"] {
            if let Some(m) = r[which].as_object() {
                for (entry, n) in m {
                    let cur = slot[which][entry.as_str()].as_u64().unwrap_or(0);
                    slot[which][entry.as_str()] = json!(cur + n.as_u64().unwrap_or(0));
                }
            }
        }
        drop(totals);
        if let Some(s) = r["samples"].as_array() {
            let mut samples = self.samples.lock().unwrap();
            for v in s {
                if samples.len() < 12 {
                    samples.push(v.clone());
                }
            }
        }
        if let Some(ps) = r["panics"].as_array() {
            for p in ps {
                self.report_panic(p);
            }
        }
    }

    fn report_panic(&self, p: &Value) {
        let lang = p["lang"].as_str().unwrap_or("?");
        let entry = p["entry"].as_str().unwrap_or("?");
        let msg = p["message"].as_str().unwrap_or("");
        // location = "file:line" after the last " @ "
        let loc = msg.rsplit(" @ ").next().unwrap_or("");
        let file = loc.rsplit('/').next().unwrap_or(loc);
        let site = if msg.contains(" @ ") { file.to_string() } else { "unknown-location".to_string() };
        self.ctx.violation(
            &format!("C36/{lang}/{entry}/panic/{site}"),
            format!(
                "{lang} {entry}({:?}) with aliases {} panicked: {msg}",
                p["text"].as_str().unwrap_or(""),
                p["aliases"]
            ),
            json!({"lang": lang, "text": p["text"], "aliases": p["aliases"], "entries": [entry]}),
        );
    }
}

/// An enumeration / guided shard. On an abnormal child exit the shard is re-run in trace mode
/// to find the input that was being parsed.
fn run_shard(sh: &Shared, key: &str, spec: Value, cpu_cap_s: u64) {
    let scratch = sh.ctx.scratch();
    let run = run_child(scratch, spec.clone(), cpu_cap_s, 1);
    *sh.child_ms.lock().unwrap().entry(key.to_owned()).or_default() += run.wall_ms as u64;
    match &run.exit {
        Exit::Clean => sh.add_tally(key, &result_of(&run)),
        Exit::Capped(why) => {
            sh.capped.lock().unwrap().push(json!({"shard": spec, "cap": why, "wall_ms": run.wall_ms as u64}));
        }
        Exit::StackOverflow | Exit::Crash(_) => {
            let mut traced = spec.clone();
            traced["trace"] = json!(true);
            let rerun = run_child(scratch, traced, cpu_cap_s, 1);
            let last: Option<String> = rerun
                .lines
                .iter()
                .rev()
                .find_map(|l| l.strip_prefix("T ").and_then(|j| serde_json::from_str::<String>(j).ok()));
            let aliases: Value = rerun
                .lines
                .iter()
                .rev()
                .find_map(|l| l.strip_prefix("A ").and_then(|j| serde_json::from_str::<Value>(j).ok()))
                .unwrap_or_else(|| if spec["aliases"].is_array() { spec["aliases"].clone() } else { json!([]) });
            let lang = spec["lang"].as_str().unwrap_or("?");
            let kind = crash_kind(&rerun.exit).or(crash_kind(&run.exit)).unwrap_or("crash");
            let family = spec["family"].as_str().or(spec["group"].as_str()).unwrap_or("?");
            match (last, crash_kind(&rerun.exit)) {
                // Enumerated inputs are short: their signature never coincides with that of a
                // nesting-ladder production.
                (Some(text), Some(_)) => sh.ctx.violation(
                    &format!("C36/{lang}/short-input/{family}/{kind}"),
                    format!(
                        "{lang}: the child process died ({:?}) while parsing the short input {text:?} with aliases {aliases}",
                        rerun.exit
                    ),
                    json!({"lang": lang, "text": text, "aliases": aliases, "family": family}),
                ),
                // The traced re-run did not get to the crash (capped, or not reproduced): the
                // shard as a whole is the case.
                _ => sh.ctx.violation(
                    &format!("C36/{lang}/short-input/{family}/{kind}"),
                    format!(
                        "{lang}: the child process died ({:?}) while running the shard {spec}; the traced re-run \
                         ended with {:?}, so the input is not isolated",
                        run.exit, rerun.exit
                    ),
                    json!({"lang": lang, "family": family, "shard": spec}),
                ),
            }
        }
    }
}

#[derive(Debug, Clone)]
struct LadderReport {
    lang: Lang,
    production: String,
    rungs_run: Vec<usize>,
    largest_completed: usize,
    first_failing_rung: Option<usize>,
    smallest_failing_depth: Option<usize>,
    failing_entry: Option<String>,
    failure: Option<String>,
    capped_at: Option<usize>,
    not_run: Vec<usize>,
}

fn run_ladder(
    sh: &Shared,
    lang: Lang,
    production: &str,
    rungs: &[usize],
    cpu_cap_s: u64,
    bisect: bool,
) -> LadderReport {
    let scratch = sh.ctx.scratch();
    let spec_for = |depths: &[usize]| {
        json!({"mode": "single", "lang": lang.name(), "production": production, "depths": depths, "case_cap_s": cpu_cap_s})
    };
    let key = format!("{}/ladder/{production}", lang.name());
    let mut rep = LadderReport {
        lang,
        production: production.to_owned(),
        rungs_run: vec![],
        largest_completed: 0,
        first_failing_rung: None,
        smallest_failing_depth: None,
        failing_entry: None,
        failure: None,
        capped_at: None,
        not_run: vec![],
    };
    // All rungs in one child, in ascending order; the child dies at the first rung that
    // overflows or hits the per-case cap, and larger rungs are not attempted after that.
    let r = run_single(scratch, spec_for(rungs), cpu_cap_s);
    *sh.child_ms.lock().unwrap().entry(key.clone()).or_default() += r.wall_ms as u64;
    *sh.child_cpu_ms.lock().unwrap().entry("ladders".to_owned()).or_default() += r.cpu_ms;
    sh.cases.fetch_add((r.completed.len() + r.in_progress_depth.is_some() as usize) as u64, Ordering::Relaxed);
    sh.evals.fetch_add(r.done.len() as u64 + r.in_progress_entry.is_some() as u64, Ordering::Relaxed);
    rep.rungs_run = r.completed.clone();
    rep.rungs_run.extend(r.in_progress_depth);
    rep.largest_completed = r.completed.iter().copied().max().unwrap_or(0);
    sh.nontrivial.fetch_add(r.completed.iter().filter(|&&d| d >= 16).count() as u64, Ordering::Relaxed);
    for (depth, entry, kind, detail) in &r.done {
        if kind == "panic" {
            let msg: String = serde_json::from_str(detail).unwrap_or_else(|_| detail.clone());
            let (text, aliases) = ladder_case(lang, production, *depth);
            sh.panics.fetch_add(1, Ordering::Relaxed);
            if text.len() <= 20000 && aliases.len() <= 300 {
                sh.report_panic(&json!({"lang": lang.name(), "entry": entry, "message": msg, "aliases": aliases, "text": text}));
            } else {
                sh.ctx.violation(
                    &format!("C36/{}/{production}/panic", lang.name()),
                    format!("{} {entry} panicked at depth {depth} of {production}: {msg}", lang.name()),
                    json!({"lang": lang.name(), "production": production, "depth": depth, "entries": [entry]}),
                );
            }
        }
    }
    let not_run = |failed: usize| -> Vec<usize> { rungs.iter().copied().filter(|&d| d > failed).collect() };
    match &r.exit {
        Exit::Clean => {
            if r.completed.len() != rungs.len() {
                vcommon::machinery_failure(&format!("ladder {key}: clean exit but only {:?} completed", r.completed));
            }
        }
        Exit::Capped(why) => {
            let depth = r.in_progress_depth.unwrap_or(0);
            rep.capped_at = Some(depth);
            rep.not_run = not_run(depth);
            sh.capped.lock().unwrap().push(json!({
                "lang": lang.name(), "production": production, "depth": depth,
                "entry": r.in_progress_entry, "cap": why, "wall_ms": r.wall_ms as u64,
                "largest_completed_depth": rep.largest_completed,
                "larger_rungs_not_run": rep.not_run,
            }));
        }
        Exit::StackOverflow | Exit::Crash(_) => {
            let kind = crash_kind(&r.exit).unwrap();
            let Some(depth) = r.in_progress_depth else {
                vcommon::machinery_failure(&format!("ladder {key}: child died ({:?}) outside any rung", r.exit));
            };
            rep.first_failing_rung = Some(depth);
            rep.failing_entry = r.in_progress_entry.clone();
            rep.failure = Some(format!("{:?}", r.exit));
            rep.not_run = not_run(depth);
            // smallest failing depth by bisection between the last completed rung and this one
            let mut lo = rep.largest_completed;
            let mut hi = depth;
            let mut exact = bisect;
            while bisect && hi - lo > 1 {
                let mid = lo + (hi - lo) / 2;
                let m = run_single(scratch, spec_for(&[mid]), cpu_cap_s);
                *sh.child_ms.lock().unwrap().entry(key.clone()).or_default() += m.wall_ms as u64;
                match m.exit {
                    Exit::Clean => lo = mid,
                    Exit::StackOverflow | Exit::Crash(_) => hi = mid,
                    Exit::Capped(_) => {
                        exact = false;
                        break;
                    }
                }
            }
            rep.smallest_failing_depth = bisect.then_some(hi);
            let (text, aliases) = ladder_case(lang, production, depth);
            let mut case = json!({
                "lang": lang.name(), "production": production, "depth": depth,
                "smallest_failing_depth_at_most": hi, "bisection_exact": exact,
                "largest_passing_depth_at_least": lo, "stack_bytes": STACK_BYTES,
            });
            if text.len() <= 20000 && aliases.len() <= 300 {
                case["text"] = json!(text);
                case["aliases"] = json!(aliases);
            }
            sh.ctx.violation(
                &format!("C36/{}/{production}/{kind}", lang.name()),
                format!(
                    "{} {}: nesting depth {depth} of production {production} kills the process ({:?}) on a \
                     {} MiB stack; smallest failing depth in ({lo}, {hi}]; input {:?}…",
                    lang.name(),
                    r.in_progress_entry.as_deref().unwrap_or("?"),
                    r.exit,
                    STACK_BYTES >> 20,
                    text.chars().take(24).collect::<String>()
                ),
                case,
            );
        }
    }
    rep
}

fn replay(ctx: &Ctx, case: &Value, cpu_cap_s: u64) {
    let lang = case["lang"].as_str().unwrap_or("");
    if case["shard"].is_object() {
        let run = run_child(ctx.scratch(), case["shard"].clone(), 1500, 1);
        if let Some(kind) = crash_kind(&run.exit) {
            let family = case["family"].as_str().unwrap_or("input");
            ctx.violation(
                &format!("C36/{lang}/short-input/{family}/{kind}"),
                format!("replay: the process died ({:?}) while running the shard", run.exit),
                case.clone(),
            );
        } else if let Exit::Capped(why) = &run.exit {
            println!("replay: capped ({why}) — no verdict");
        } else {
            for p in result_of(&run)["panics"].as_array().cloned().unwrap_or_default() {
                let entry = p["entry"].as_str().unwrap_or("?");
                ctx.violation(&format!("C36/{lang}/{entry}/panic/replayed-shard"), p["message"].as_str().unwrap_or("").to_string(), case.clone());
            }
        }
        return;
    }
    let mut spec = json!({"mode": "single", "lang": lang});
    if case["text"].is_string() {
        spec["text"] = case["text"].clone();
        spec["aliases"] = case["aliases"].clone();
    } else {
        spec["production"] = case["production"].clone();
        spec["depth"] = case["depth"].clone();
    }
    if case["entries"].is_array() {
        spec["entries"] = case["entries"].clone();
    }
    spec["case_cap_s"] = json!(cpu_cap_s);
    let r = run_single(ctx.scratch(), spec, cpu_cap_s);
    let label = case["family"].as_str().unwrap_or("input");
    for (_depth, entry, kind, detail) in &r.done {
        if kind == "panic" {
            let msg: String = serde_json::from_str(detail).unwrap_or_else(|_| detail.clone());
            let loc = msg.rsplit(" @ ").next().unwrap_or("");
            let file = loc.rsplit('/').next().unwrap_or(loc);
            let site = if msg.contains(" @ ") { file.to_string() } else { "unknown-location".to_string() };
            ctx.violation(&format!("C36/{lang}/{entry}/panic/{site}"), format!("replay: {entry} panicked: {msg}"), case.clone());
        }
    }
    match &r.exit {
        Exit::Clean => {}
        Exit::Capped(why) => println!("replay: capped ({why}) — no verdict"),
        e => {
            let kind = crash_kind(e).unwrap();
            let signature = match case["production"].as_str() {
                Some(p) => format!("C36/{lang}/{p}/{kind}"),
                None => format!("C36/{lang}/short-input/{label}/{kind}"),
            };
            ctx.violation(
                &signature,
                format!("replay: the process died ({e:?}) in entry {:?}", r.in_progress_entry),
                case.clone(),
            );
        }
    }
}

fn main() {
    let args: Vec<String> = std::env::args().collect();
    if args.get(1).map(String::as_str) == Some("__child") {
        child_main(args.get(2).map(String::as_str).unwrap_or(""));
    }
    let ctx = Ctx::from_args("C36", Level::Exploration);
    vcommon::silence_panics();
    let ladder_cap_s: u64 = ctx.pick(2, 30);
    let bisect = ctx.thorough();
    let shard_cap_s: u64 = ctx.pick(120, 1500);
    if let Some((_sig, case)) = ctx.replay_case() {
        replay(&ctx, &case, ladder_cap_s.max(30));
        shutdown_workers();
        ctx.finish(Coverage { evaluations: 1, ..Default::default() });
    }
    let token_len: usize = ctx.pick(3, 5);
    let token_core_len: usize = ctx.pick(4, 6);
    let alias_input_limit: usize = ctx.pick(8, 13);
    let char_limit: usize = ctx.pick(12, CHAR_ALPHABET.len());
    let pattern_value_limit: usize = ctx.pick(8, FILESET_VALUE_CHARS.len());
    let char_len: usize = ctx.pick(4, 5);
    let decl_len: usize = ctx.pick(4, 5);
    let alias_input_len: usize = ctx.pick(3, 4);
    let alias_sets_per_child: usize = ctx.pick(8, 2);
    // quick: a coarse ladder to 2048 (the rungs 10..14 are where the exponential revset
    // productions burn their whole cap, and the deepest rungs dominate the CPU time of the
    // tier); thorough: all rungs to 65536
    let rungs: Vec<usize> = if ctx.quick() {
        vec![1, 2, 3, 4, 6, 8, 16, 64, 256, 1024, 2048]
    } else {
        RUNGS.to_vec()
    };

    let sh = Shared {
        ctx: &ctx,
        child_ms: Mutex::new(BTreeMap::new()),
        child_cpu_ms: Mutex::new(BTreeMap::new()),
        capped: Mutex::new(vec![]),
        totals: Mutex::new(BTreeMap::new()),
        samples: Mutex::new(vec![]),
        evals: AtomicU64::new(0),
        cases: AtomicU64::new(0),
        nontrivial: AtomicU64::new(0),
        panics: AtomicU64::new(0),
        recursion_errors: AtomicU64::new(0),
    };

    // ---- plan -------------------------------------------------------------------------------
    enum Job {
        Shard { key: String, spec: Value },
        Ladder { lang: Lang, production: &'static str },
    }
    let mut jobs: Vec<Job> = vec![];
    // ladders first: they contain the long-running (capped) cases
    for lang in LANGS {
        for production in productions(lang) {
            jobs.push(Job::Ladder { lang, production });
        }
    }
    let prefix_len = |max_len: usize, a: usize| -> usize {
        // keep shards below ~1e5 cases
        let mut p = 1;
        while (a as f64).powi((max_len - p) as i32) > 1.5e5 && p < max_len {
            p += 1;
        }
        p
    };
    // All strings with min_len <= length <= max_len over the first `limit` tokens of the family's alphabet.
    let push_enum = |jobs: &mut Vec<Job>, lang: Lang, family: &str, limit: usize, min_len: usize, max_len: usize, key: String| {
        let a = limit;
        let p = prefix_len(max_len, a).min(max_len);
        let base = json!({"mode": "enum", "lang": lang.name(), "family": family, "limit": limit, "min_len": min_len});
        if min_len < p {
            // lengths 0..p-1 from the empty prefix
            let mut spec = base.clone();
            spec["prefix"] = json!([]);
            spec["extra"] = json!(p - 1);
            jobs.push(Job::Shard { key: key.clone(), spec });
        }
        let mut prefixes: Vec<Vec<usize>> = vec![vec![]];
        for _ in 0..p {
            prefixes = prefixes
                .into_iter()
                .flat_map(|pre| {
                    (0..a).map(move |i| {
                        let mut v = pre.clone();
                        v.push(i);
                        v
                    })
                })
                .collect();
        }
        for pre in prefixes {
            let mut spec = base.clone();
            spec["prefix"] = json!(pre);
            spec["extra"] = json!(max_len - p);
            jobs.push(Job::Shard { key: key.clone(), spec });
        }
    };
    for lang in LANGS {
        let full = token_alphabet(lang).len();
        push_enum(&mut jobs, lang, "tokens", full, 0, token_len, format!("{}/tokens", lang.name()));
        if token_core_len > token_len {
            // longer strings over the core part of the alphabet only
            push_enum(&mut jobs, lang, "tokens", TOKEN_CORE, token_len + 1, token_core_len, format!("{}/tokens", lang.name()));
        }
        push_enum(&mut jobs, lang, "chars", char_limit, 0, char_len, format!("{}/chars", lang.name()));
        push_enum(&mut jobs, lang, "decl", DECL_ALPHABET.len(), 0, decl_len, format!("{}/decl", lang.name()));
        let pool = alias_pool(lang);
        let sets: Vec<Aliases> = alias_sets(lang)
            .iter()
            .map(|set| set.iter().map(|&i| (pool[i].0.to_owned(), pool[i].1.to_owned())).collect())
            .collect();
        for chunk in sets.chunks(alias_sets_per_child) {
            jobs.push(Job::Shard {
                key: format!("{}/alias", lang.name()),
                spec: json!({"mode": "enum", "lang": lang.name(), "family": "alias", "prefix": [], "extra": alias_input_len, "alias_sets": chunk, "limit": alias_input_limit}),
            });
        }
        jobs.push(Job::Shard {
            key: format!("{}/escapes", lang.name()),
            spec: json!({"mode": "guided", "lang": lang.name(), "group": "escapes", "index": 0}),
        });
    }
    for chunk in (0..REVSET_FUNCTIONS.len()).collect::<Vec<_>>().chunks(6) {
        jobs.push(Job::Shard {
            key: "revset/functions".into(),
            spec: json!({"mode": "guided", "lang": "revset", "group": "functions", "indices": chunk}),
        });
    }
    for i in 0..FILESET_KINDS.len() {
        jobs.push(Job::Shard {
            key: "fileset/patterns".into(),
            spec: json!({"mode": "guided", "lang": "fileset", "group": "patterns", "index": i, "limit": pattern_value_limit}),
        });
    }
    let shard_count = jobs.iter().filter(|j| matches!(j, Job::Shard { .. })).count();

    // ---- run --------------------------------------------------------------------------------
    let ladder_reports: Mutex<Vec<LadderReport>> = Mutex::new(vec![]);
    jobs.par_iter().with_max_len(1).for_each(|job| match job {
        Job::Shard { key, spec } => run_shard(&sh, key, spec.clone(), shard_cap_s),
        Job::Ladder { lang, production } => {
            let rep = run_ladder(&sh, *lang, production, &rungs, ladder_cap_s, bisect);
            ladder_reports.lock().unwrap().push(rep);
        }
    });

    shutdown_workers();

    // ---- evidence ---------------------------------------------------------------------------
    let mut reports = ladder_reports.into_inner().unwrap();
    reports.sort_by(|a, b| (a.lang, a.production.as_str()).cmp(&(b.lang, b.production.as_str())));
    let ladder_json: Vec<Value> = reports
        .iter()
        .map(|r| {
            json!({
                "lang": r.lang.name(), "production": r.production, "largest_completed_depth": r.largest_completed,
                "first_failing_rung": r.first_failing_rung, "smallest_failing_depth": r.smallest_failing_depth,
                "failing_entry": r.failing_entry, "failure": r.failure, "capped_at": r.capped_at,
                "rungs_run": r.rungs_run.len(), "rungs_not_run": r.not_run,
            })
        })
        .collect();
    let capped = sh.capped.lock().unwrap().clone();
    let totals = sh.totals.lock().unwrap().clone();
    // vacuity: every family must have produced both Ok and Err outcomes, alias recursion must
    // have been reported as an error at least once, every ladder must have run
    for lang in LANGS {
        for fam in ["tokens", "chars", "alias", "decl", "escapes"] {
            let key = format!("{}/{fam}", lang.name());
            let Some(t) = totals.get(&key) else {
                if capped.is_empty() && ctx.violation_count() == 0 {
                    vcommon::machinery_failure(&format!("family {key} never ran"));
                }
                continue;
            };
            let oks: u64 = t["ok"].as_object().map(|m| m.values().filter_map(Value::as_u64).sum()).unwrap_or(0);
            let errs: u64 = t["err"].as_object().map(|m| m.values().filter_map(Value::as_u64).sum()).unwrap_or(0);
            if oks == 0 || errs == 0 {
                vcommon::machinery_failure(&format!("family {key} is vacuous: ok={oks} err={errs}"));
            }
        }
    }
    if sh.recursion_errors.load(Ordering::Relaxed) == 0 && ctx.violation_count() == 0 {
        vcommon::machinery_failure("alias recursion was never reported as an error (vacuous alias family)");
    }
    if reports.len() != LANGS.iter().map(|l| productions(*l).len()).sum::<usize>() {
        vcommon::machinery_failure("not every ladder ran");
    }
    let mut samples = sh.samples.lock().unwrap().clone();
    samples.push(json!({"family": "ladder", "lang": "revset", "production": "prefix-negate", "depth": 8, "text": ladder_case(Lang::Revset, "prefix-negate", 8).0}));
    samples.push(json!({"family": "ladder", "lang": "template", "production": "lambda-nesting", "depth": 3, "text": ladder_case(Lang::Template, "lambda-nesting", 3).0}));

    let exhaustive = capped.is_empty();
    let cov = Coverage {
        evaluations: sh.evals.load(Ordering::Relaxed),
        distinct_nontrivial: sh.nontrivial.load(Ordering::Relaxed),
        rule: format!(
            "per language (revset, fileset, template): every string of <= {token_len} tokens over the language's token \
             alphabet (sizes {:?}) and every string of <= {token_core_len} tokens over its first {TOKEN_CORE} tokens; every string of <= {char_len} characters over the first {char_limit} of {CHAR_ALPHABET:?}; every alias \
             declaration of <= {decl_len} tokens over {DECL_ALPHABET:?}; every set of <= 2 alias rules from a pool of 17 x \
             every input of <= {alias_input_len} tokens over the first {alias_input_limit} input tokens; every string literal of <= 3 escape atoms; every builtin revset \
             function x <= 2 arguments from {} argument forms; every fileset pattern kind x every value of <= 3 \
             tokens over the first {pattern_value_limit} of {FILESET_VALUE_CHARS:?} (quoted and bare); nesting ladders {rungs:?} for every recursive \
             production. Each case is run through every public parse entry point of its language \
             (revset: parse_program, parse, parse_string_expression; fileset: parse, parse_maybe_bare; template: \
             parse_template, parse; cases with alias rules only through the entry points that expand aliases); evaluations \
             counts entry-point executions. Non-trivial (counted conservatively, \
             distinct by construction): token strings that are the greedy tokenisation of their text and parse Ok in \
             at least one entry point; (alias set, input) pairs with a non-empty alias set whose input mentions a \
             declared alias; guided cases that parse Ok (functions not in the token alphabet; escape literals in \
             canonical tokenisation); ladder rungs of depth >= 16 that completed. Character-family and declaration \
             cases are not counted as non-trivial (they can coincide with token-family strings)",
            LANGS.iter().map(|l| token_alphabet(*l).len()).collect::<Vec<_>>(),
            REVSET_ARGS.len(),
        ),
        samples,
        exhaustive,
        extra: [
            ("child_processes".to_string(), json!(CHILDREN.load(Ordering::Relaxed))),
            ("jobs_run_in_child_processes".to_string(), json!(JOBS.load(Ordering::Relaxed))),
            ("shards".to_string(), json!(shard_count)),
            ("cases".to_string(), json!(sh.cases.load(Ordering::Relaxed))),
            ("outcomes_per_family".to_string(), json!(totals)),
            ("panics".to_string(), json!(sh.panics.load(Ordering::Relaxed))),
            ("alias_recursion_errors".to_string(), json!(sh.recursion_errors.load(Ordering::Relaxed))),
            ("ladders".to_string(), json!(ladder_json)),
            ("capped".to_string(), json!(capped)),
            ("child_wall_ms_per_family".to_string(), json!(*sh.child_ms.lock().unwrap())),
            ("child_cpu_ms_per_family_completed_jobs".to_string(), json!(*sh.child_cpu_ms.lock().unwrap())),
            ("cpu_cap_s_per_ladder_case".to_string(), json!(ladder_cap_s)),
            ("cpu_cap_s_per_enumeration_shard".to_string(), json!(shard_cap_s)),
            ("stack_bytes".to_string(), json!(STACK_BYTES)),
            (
                "exhaustive_parts".to_string(),
                json!("all enumeration families are complete unless a shard is listed under `capped`; a ladder is complete up to `largest_completed_depth`; rungs under `capped`/`rungs_not_run` carry no verdict"),
            ),
        ]
        .into_iter()
        .collect(),
        assumptions: vec![
            format!("stack overflow is judged on a thread with a {} MiB stack (jj's main thread under the default ulimit -s) in the harness build profile (opt-level 2 for jj crates, debug assertions on); thresholds differ in other builds", STACK_BYTES >> 20),
            "an Ok result of a ladder case is leaked, not dropped: the destructor of a deep tree is not part of the parse".into(),
            "template: only template_parser (text -> AST -> alias expansion) is covered, not the type-checking build phase".into(),
            "the error value of every failed parse is also rendered with Display (reporting an error must not panic either)".into(),
            "inputs longer than the stated bounds, alias sets of more than 2 rules (except the alias-chain ladder) and tokens outside the alphabets are not explored".into(),
        ],
        ..Default::default()
    };
    ctx.finish(cov);
}
